#!/usr/bin/env python3
"""tools/robust.py <mutant-dir> <worktree> <seed> [<seed> ...]: run the mutant's own property check (quick) at further
seeds and record the verdicts in result.json under "own_by_seed" (seed 1 is what "checks" holds)."""
import json, os, subprocess, sys
ROOT = os.path.dirname(os.path.dirname(os.path.abspath(__file__)))
mdir, wt, seeds = sys.argv[1].rstrip("/"), sys.argv[2], sys.argv[3:]
own = os.path.basename(mdir)[:3]
rf = os.path.join(mdir, "result.json")
res = json.load(open(rf))
by = res.setdefault("own_by_seed", {})
by["1"] = res.get("checks", {}).get(own, "?").split(" ")[0]
for seed in seeds:
    p = subprocess.run([sys.executable, os.path.join(ROOT, "tools/seedrun.py"), mdir, "--wt", wt, "--checks", own, "--no-demo", "--seed", seed],
                       stdout=subprocess.PIPE, stderr=subprocess.STDOUT, text=True)
    try:
        new = json.loads(p.stdout[p.stdout.index("{"):])
        by[seed] = new["checks"][own].split(" ")[0]
    except Exception:
        by[seed] = "error"
json.dump(res, open(rf, "w"), indent=1, ensure_ascii=False)
print(os.path.basename(mdir), by)
