// Command mutate lists small syntactic mutations of the non-test Go files below a directory:
//
//	go run . <repo-dir> > mutants.jsonl
//
// Each line: {"file","line","off","old","new","kind"}; applying it means replacing the bytes old at offset off by new.
// Used by tools/mutsweep.py to measure which simple code changes survive the repository's own suite and are then
// caught (or not) by the property checks.
package main

import (
	"encoding/json"
	"fmt"
	"go/ast"
	"go/parser"
	"go/token"
	"os"
	"path/filepath"
	"strconv"
	"strings"
)

type mutant struct {
	File string `json:"file"`
	Line int    `json:"line"`
	Off  int    `json:"off"`
	Old  string `json:"old"`
	New  string `json:"new"`
	Kind string `json:"kind"`
}

var swaps = map[token.Token][]string{
	token.EQL: {"!="}, token.NEQ: {"=="}, token.LSS: {"<=", ">"}, token.LEQ: {"<"}, token.GTR: {">=", "<"}, token.GEQ: {">"},
	token.LAND: {"||"}, token.LOR: {"&&"}, token.ADD: {"-"}, token.SUB: {"+"},
}

func main() {
	root := os.Args[1]
	enc := json.NewEncoder(os.Stdout)
	for _, dir := range []string{".", "internal/tree", "internal/syntax", "internal/trace", "types"} {
		files, _ := filepath.Glob(filepath.Join(root, dir, "*.go"))
		for _, f := range files {
			if strings.HasSuffix(f, "_test.go") || strings.HasSuffix(f, "/test.go") {
				continue
			}
			src, err := os.ReadFile(f)
			if err != nil {
				panic(err)
			}
			fset := token.NewFileSet()
			af, err := parser.ParseFile(fset, f, src, 0)
			if err != nil {
				panic(err)
			}
			rel, _ := filepath.Rel(root, f)
			emit := func(pos token.Pos, old, new, kind string) {
				p := fset.Position(pos)
				if !strings.HasPrefix(string(src[p.Offset:]), old) {
					return
				}
				enc.Encode(mutant{rel, p.Line, p.Offset, old, new, kind})
			}
			ast.Inspect(af, func(n ast.Node) bool {
				switch x := n.(type) {
				case *ast.GenDecl:
					if x.Tok == token.CONST || x.Tok == token.IMPORT {
						return false
					}
				case *ast.BinaryExpr:
					for _, nw := range swaps[x.Op] {
						emit(x.OpPos, x.Op.String(), nw, "binop")
					}
				case *ast.IfStmt:
					if x.Cond != nil {
						s, e := fset.Position(x.Cond.Pos()).Offset, fset.Position(x.Cond.End()).Offset
						emit(x.Cond.Pos(), string(src[s:e]), "!("+string(src[s:e])+")", "negate-if")
					}
				case *ast.IncDecStmt:
					if x.Tok == token.INC {
						emit(x.TokPos, "++", "--", "incdec")
					} else {
						emit(x.TokPos, "--", "++", "incdec")
					}
				case *ast.BasicLit:
					if x.Kind == token.INT {
						if v, err := strconv.Atoi(x.Value); err == nil {
							emit(x.Pos(), x.Value, strconv.Itoa(v+1), "int+1")
							if v > 0 {
								emit(x.Pos(), x.Value, strconv.Itoa(v-1), "int-1")
							}
						}
					}
				case *ast.ExprStmt:
					if _, ok := x.X.(*ast.CallExpr); ok {
						s, e := fset.Position(x.Pos()).Offset, fset.Position(x.End()).Offset
						emit(x.Pos(), string(src[s:e]), "_ = 0", "drop-call")
					}
				case *ast.DeferStmt:
					s, e := fset.Position(x.Pos()).Offset, fset.Position(x.End()).Offset
					emit(x.Pos(), string(src[s:e]), "_ = 0", "drop-defer")
				case *ast.BranchStmt:
					if x.Label == nil && x.Tok == token.CONTINUE {
						emit(x.TokPos, "continue", "break", "branch")
					} else if x.Label == nil && x.Tok == token.BREAK {
						emit(x.TokPos, "break", "continue", "branch")
					}
				case *ast.ReturnStmt:
					for _, r := range x.Results {
						if id, ok := r.(*ast.Ident); ok && (id.Name == "true" || id.Name == "false") {
							emit(id.Pos(), id.Name, map[string]string{"true": "false", "false": "true"}[id.Name], "bool-return")
						}
						if id, ok := r.(*ast.Ident); ok && id.Name == "nil" && len(x.Results) == 1 {
							_ = id
						}
					}
				case *ast.AssignStmt:
					// x = y  ->  dropped, when it is a plain assignment to a field or index (state that is then not updated)
					if x.Tok == token.ASSIGN && len(x.Lhs) == 1 {
						switch x.Lhs[0].(type) {
						case *ast.SelectorExpr, *ast.IndexExpr:
							s, e := fset.Position(x.Pos()).Offset, fset.Position(x.End()).Offset
							emit(x.Pos(), string(src[s:e]), "_ = 0", "drop-assign")
						}
					}
				}
				return true
			})
		}
	}
	fmt.Fprintln(os.Stderr, "done")
}
