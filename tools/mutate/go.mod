module mutate

go 1.23
