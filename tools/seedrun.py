#!/usr/bin/env python3
"""tools/seedrun.py <mutant-dir> [--wt <scratch worktree>] [--checks C01,C02,...] [--tier quick] [--seed N] [--no-demo]

Applies <mutant-dir>/patch.diff to /repo (or, with --wt, to a scratch git worktree of /repo that
is first moved to /repo's HEAD; the checks are then built against it through VERIF_REPO, so
several seeded changes can be evaluated at the same time without touching /repo), confirms that
the repository's own suite still passes and that the demonstration fails with the change (and
passes without), runs the listed checks (default: all) against the changed tree, then ALWAYS
restores the tree. Prints a JSON summary: per check CAUGHT (exit 1 + VIOLATION line), missed
(exit 0), or inconclusive.
"""
import json, os, re, subprocess, sys, shutil, concurrent.futures

ROOT = os.path.dirname(os.path.dirname(os.path.abspath(__file__)))
REPO = "/repo"
ENV = dict(os.environ, GOFLAGS="-mod=mod", GOPROXY="off", GOSUMDB="off", GOTOOLCHAIN="local")


def sh(cmd, cwd=None, env=None, timeout=3600):
    p = subprocess.run(cmd, cwd=cwd, env=env or ENV, stdout=subprocess.PIPE, stderr=subprocess.STDOUT, text=True, errors="replace", timeout=timeout)
    return p.returncode, p.stdout


def demo(mdir):
    src = os.path.join(mdir, "demo_test.go")
    if not os.path.exists(src):
        return None, "no demo"
    dst = os.path.join(REPO, "zz_demo_test.go")
    shutil.copy(src, dst)
    try:
        race = "-race" in open(os.path.join(mdir, "README.md")).read() if os.path.exists(os.path.join(mdir, "README.md")) else False
        names = re.findall(r"^func (Test\w+)\(", open(src).read(), re.M)
        cmd = ["go", "test", "-vet=off", "-count=1", "-run", "^(" + "|".join(names) + ")$", "."]
        if race:
            cmd.insert(2, "-race")
        rc, out = sh(cmd, cwd=REPO, timeout=900)
        return rc, out[-1500:]
    finally:
        os.remove(dst)


def main():
    a = sys.argv[1:]
    mdir = os.path.abspath(a[0])
    checks = sorted(json.load(open(os.path.join(ROOT, "checks.json"))))
    global REPO
    tier, seed, do_demo, wt = "quick", "1", True, None
    i = 1
    while i < len(a):
        if a[i] == "--checks":
            checks = a[i + 1].split(","); i += 2
        elif a[i] == "--tier":
            tier = a[i + 1]; i += 2
        elif a[i] == "--seed":
            seed = a[i + 1]; i += 2
        elif a[i] == "--wt":
            wt = a[i + 1]; i += 2
        elif a[i] == "--no-demo":
            do_demo = False; i += 1
        else:
            i += 1
    if wt:
        head = sh(["git", "rev-parse", "HEAD"], cwd=REPO)[1].strip()
        REPO = os.path.abspath(wt)
        sh(["git", "checkout", "--", "."], cwd=REPO)
        sh(["git", "checkout", "-q", "--detach", head], cwd=REPO)
    rc, out = sh(["git", "status", "--short", "--untracked-files=no"], cwd=REPO)
    if out.strip():
        print("REFUSING: %s is not clean:\n%s" % (REPO, out))
        return 2
    result = {"mutant": mdir, "tier": tier, "seed": seed}
    try:
        if do_demo:
            rc0, out0 = demo(mdir)
            result["demo_without_patch"] = "pass" if rc0 == 0 else "FAIL"
        rc, out = sh(["git", "apply", os.path.join(mdir, "patch.diff")], cwd=REPO)
        if rc != 0:
            print("patch does not apply:\n" + out)
            return 2
        rc, out = sh(["go", "build", "./..."], cwd=REPO)
        result["builds"] = rc == 0
        pk = [l for l in sh(["go", "list", "./..."], cwd=REPO)[1].split() if "/out" not in l and l.startswith("github.com/")]
        rc, out = sh(["go", "test", "-vet=off", "-count=1"] + pk, cwd=REPO)
        result["suite_passes"] = rc == 0
        if rc != 0:
            result["suite_output"] = out[-1500:]
        sh(["git", "checkout", "--", "go.mod", "go.sum"], cwd=REPO)
        if do_demo:
            rc1, out1 = demo(mdir)
            result["demo_with_patch"] = "pass" if rc1 == 0 else "FAIL"
            if rc1 == 0:
                result["demo_output"] = out1

        def one(pid):
            e = dict(ENV, VERIF_SEED=seed)
            if wt:
                e["VERIF_REPO"] = REPO
            rc, out = sh([os.path.join(ROOT, "check"), pid, tier], cwd=ROOT, env=e, timeout=7200)
            viol = [l for l in out.splitlines() if l.startswith("VIOLATION")]
            clause = [l for l in out.splitlines() if l.startswith("violated")]
            return pid, rc, (viol[0] if viol else ""), (clause[0][:200] if clause else "")
        with concurrent.futures.ThreadPoolExecutor(max_workers=4) as ex:
            res = list(ex.map(one, checks))
        result["checks"] = {}
        for pid, rc, viol, clause in res:
            verdict = "CAUGHT" if rc == 1 and viol else ("missed" if rc == 0 else "inconclusive(rc=%d)" % rc)
            result["checks"][pid] = verdict + (" " + clause if clause else "")
    finally:
        sh(["git", "checkout", "--", "."], cwd=REPO)
        for f in ("zz_demo_test.go",):
            p = os.path.join(REPO, f)
            if os.path.exists(p):
                os.remove(p)
        if not wt:
            # replays / evidence written while the change was applied to /repo are not findings of the real tree
            sh(["git", "clean", "-fdq", "replays"], cwd=ROOT)
            sh(["git", "checkout", "--", "evidence"], cwd=ROOT)
    print(json.dumps(result, indent=1, ensure_ascii=False))
    return 0


if __name__ == "__main__":
    sys.exit(main())
