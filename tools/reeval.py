#!/usr/bin/env python3
"""tools/reeval.py <mutant-dir> <worktree> [seed]: re-run only the mutant's own property check (quick) and merge
the verdict into <mutant-dir>/result.json (key checks[<own>]); used after the harness changed."""
import json, os, subprocess, sys
ROOT = os.path.dirname(os.path.dirname(os.path.abspath(__file__)))
mdir, wt = sys.argv[1].rstrip("/"), sys.argv[2]
seed = sys.argv[3] if len(sys.argv) > 3 else "1"
own = os.path.basename(mdir)[:3]
p = subprocess.run([sys.executable, os.path.join(ROOT, "tools/seedrun.py"), mdir, "--wt", wt, "--checks", own, "--no-demo", "--seed", seed],
                   stdout=subprocess.PIPE, stderr=subprocess.STDOUT, text=True)
try:
    new = json.loads(p.stdout[p.stdout.index("{"):])
    verdict = new["checks"][own]
except Exception:
    print(os.path.basename(mdir), "ERROR", p.stdout[-400:]); sys.exit(1)
rf = os.path.join(mdir, "result.json")
res = json.load(open(rf))
old = res.get("checks", {}).get(own, "?")
res.setdefault("checks", {})[own] = verdict
json.dump(res, open(rf, "w"), indent=1, ensure_ascii=False)
print(os.path.basename(mdir), "was:", old[:10], "now:", verdict[:60])
