#!/usr/bin/env python3
"""tools/mutsweep.py <mutants.jsonl> <out.jsonl> [--par N] [--phase suite|checks] [--limit N]

Mutation sweep (a systematic complement to the seeded changes written by sub-agents): every mutant listed by tools/mutate is
applied to a scratch worktree of /repo; phase "suite" records whether it builds and whether the repository's own tests still
pass; phase "checks" takes the suite survivors and runs the quick property checks that look at the mutated file (stopping at
the first that reports a violation). /repo itself is never touched; worktrees live under /tmp and are removed."""
import json, os, subprocess, sys, queue, concurrent.futures, random
ROOT = os.path.dirname(os.path.dirname(os.path.abspath(__file__)))
ENV = dict(os.environ, GOFLAGS="-mod=mod", GOPROXY="off", GOSUMDB="off", GOTOOLCHAIN="local")
a = sys.argv[1:]
src, out, par, phase, limit = a[0], a[1], 6, "suite", 0
i = 2
while i < len(a):
    if a[i] == "--par": par = int(a[i+1]); i += 2
    elif a[i] == "--phase": phase = a[i+1]; i += 2
    elif a[i] == "--limit": limit = int(a[i+1]); i += 2
    else: i += 1

CHECKS = {
    "internal/syntax/": ["C02", "C01", "C03", "C10", "C17", "C05", "C14", "C04", "C19"],
    "internal/tree/node.go": ["C03", "C02", "C01", "C04", "C17", "C05", "C10", "C14", "C19", "C09"],
    "internal/tree/tree.go": ["C03", "C04", "C17", "C01", "C10", "C05", "C08", "C18", "C19", "C09", "C06"],
    "internal/tree/method.go": ["C04", "C03", "C08", "C17", "C09", "C18", "C19", "C07"],
    "internal/trace/": ["C18"],
    "types/": ["C20", "C01", "C16", "C13", "C07"],
    "router.go": ["C08", "C09", "C16", "C19", "C10", "C18", "C03", "C13", "C07", "C06"],
    "options.go": ["C11", "C12", "C16", "C05", "C18", "C10", "C13"],
    "match.go": ["C13", "C14", "C15", "C05"],
    "group.go": ["C13", "C09", "C16", "C10", "C11"],
    "mux.go": ["C10", "C18", "C05", "C07"],
}

def sh(cmd, cwd=None, env=None, timeout=900):
    try:
        p = subprocess.run(cmd, cwd=cwd, env=env or ENV, stdout=subprocess.PIPE, stderr=subprocess.STDOUT, text=True, errors="replace", timeout=timeout)
        return p.returncode, p.stdout
    except subprocess.TimeoutExpired:
        return 124, "timeout"

wts = queue.Queue()
for k in range(par):
    wt = "/tmp/mutwt%d" % k
    subprocess.run(["git", "-C", "/repo", "worktree", "remove", "--force", wt], stdout=subprocess.DEVNULL, stderr=subprocess.DEVNULL)
    subprocess.run(["git", "-C", "/repo", "worktree", "add", "--detach", "-f", wt, "HEAD"], stdout=subprocess.DEVNULL, stderr=subprocess.DEVNULL, check=True)
    wts.put(wt)
PKGS = [l for l in sh(["go", "list", "./..."], cwd="/repo")[1].split() if l.startswith("github.com/")]

def apply(wt, m):
    p = os.path.join(wt, m["file"])
    b = open(p, "rb").read()
    old, new = m["old"].encode(), m["new"].encode()
    assert b[m["off"]:m["off"]+len(old)] == old
    open(p, "wb").write(b[:m["off"]] + new + b[m["off"]+len(old):])

def one(m):
    wt = wts.get()
    try:
        sh(["git", "checkout", "--", "."], cwd=wt)
        apply(wt, m)
        r = dict(m)
        if phase == "suite":
            rc, o = sh(["go", "build", "./..."], cwd=wt, timeout=300)
            if rc != 0:
                r["verdict"] = "no-build"; return r
            rc, o = sh(["go", "test", "-vet=off", "-count=1", "-timeout", "120s"] + PKGS, cwd=wt, timeout=400)
            sh(["git", "checkout", "--", "go.mod", "go.sum"], cwd=wt)
            r["verdict"] = "survives-suite" if rc == 0 else "killed-by-suite"
            return r
        checks = []
        for pre, cs in CHECKS.items():
            if m["file"].startswith(pre) or m["file"] == pre:
                checks = cs
        r["ran"] = []
        r["verdict"] = "survives-checks"
        for c in checks:
            e = dict(ENV, VERIF_SEED="1", VERIF_REPO=wt)
            rc, o = sh([os.path.join(ROOT, "check"), c, "quick"], cwd=ROOT, env=e, timeout=3000)
            r["ran"].append(c)
            if rc == 1 and "VIOLATION" in o:
                cl = [l for l in o.splitlines() if l.startswith("violated")]
                r["verdict"] = "caught"; r["by"] = c; r["clause"] = cl[0][:160] if cl else ""
                break
            if rc not in (0, 1):
                r.setdefault("inconclusive", []).append(c)
        return r
    finally:
        sh(["git", "checkout", "--", "."], cwd=wt)
        wts.put(wt)

ms = [json.loads(l) for l in open(src)]
if phase == "checks":
    ms = [m for m in ms if m.get("verdict") == "survives-suite"]
random.Random(7).shuffle(ms)
if limit:
    ms = ms[:limit]
done = 0
with open(out, "a") as f, concurrent.futures.ThreadPoolExecutor(max_workers=par) as ex:
    for r in ex.map(one, ms):
        f.write(json.dumps(r, ensure_ascii=False) + "\n"); f.flush()
        done += 1
        if done % 25 == 0:
            print(done, "of", len(ms), flush=True)
while not wts.empty():
    subprocess.run(["git", "-C", "/repo", "worktree", "remove", "--force", wts.get()], stdout=subprocess.DEVNULL, stderr=subprocess.DEVNULL)
subprocess.run(["git", "-C", "/repo", "worktree", "prune"])
print("finished", len(ms))
