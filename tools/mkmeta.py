#!/usr/bin/env python3
"""Writes seeded/<name>/meta.json from result.json + README.md and prints the catch table (markdown)."""
import json, glob, os, re, sys
ROOT = os.path.dirname(os.path.dirname(os.path.abspath(__file__)))
rows = []
for d in sorted(glob.glob(os.path.join(ROOT, "seeded", "*"))):
    name = os.path.basename(d)
    rp = os.path.join(d, "result.json")
    if not os.path.exists(rp):
        continue
    try:
        r = json.load(open(rp))
    except Exception:
        continue
    readme = open(os.path.join(d, "README.md"), errors="replace").read() if os.path.exists(os.path.join(d, "README.md")) else ""
    needs = [l.strip("-* ").strip() for l in readme.splitlines() if re.search(r"\bneed", l, re.I)]
    first = next((l.strip("# ").strip() for l in readme.splitlines() if l.strip()), "")
    files = sorted(set(re.findall(r"^\+\+\+ b/(\S+)", open(os.path.join(d, "patch.diff")).read(), re.M)))
    prop = name.split("-")[0]
    caught = sorted(k for k, v in r.get("checks", {}).items() if v.startswith("CAUGHT"))
    confirmed = r.get("builds") and r.get("suite_passes") and r.get("demo_without_patch") == "pass" and r.get("demo_with_patch") == "FAIL"
    meta = {
        "name": name,
        "breaks_property": prop,
        "origin": "written by an independent sub-agent that was given only the text of %s and a scratch worktree of /repo (nothing from /verif)" % prop,
        "files_changed": files,
        "summary": first,
        "needs_to_manifest": needs[:6],
        "confirmed": bool(confirmed),
        "confirmation": {
            "how": "tools/seedrun.py: patch applied to a scratch worktree at /repo's HEAD; go build; the repository's own test packages; demo_test.go copied to the repository root and run with and without the patch; then every quick check built against the changed tree (VERIF_REPO)",
            "builds": r.get("builds"), "repository_suite_passes": r.get("suite_passes"),
            "demo_without_patch": r.get("demo_without_patch"), "demo_with_patch": r.get("demo_with_patch"),
            "tier": r.get("tier"), "seed": r.get("seed"),
        },
        "checks": r.get("checks", {}),
        "caught_by": caught,
        "caught_by_own_property_check": prop in caught,
    }
    if os.path.exists(os.path.join(d, "notes.txt")):
        meta["notes"] = open(os.path.join(d, "notes.txt")).read().strip()
    json.dump(meta, open(os.path.join(d, "meta.json"), "w"), indent=1, ensure_ascii=False)
    rows.append((name, ", ".join(files), "yes" if confirmed else "NO", ", ".join(caught) or "—", "yes" if prop in caught else "**no**"))
print("| seeded change | files | confirmed | caught by (quick tier) | by its own property's check |")
print("|---|---|---|---|---|")
for r in rows:
    print("| %s | %s | %s | %s | %s |" % r)
