#!/usr/bin/env python3
"""tools/evalpass.py <glob under seeded/> [--par N] [--own] [--seed S]: evaluates seeded changes in N scratch worktrees of
/repo (under /tmp, removed afterwards). Default: full pass (demo + all quick checks) -> result.json. With --own: only the
change's own property check, merged into result.json (tools/reeval.py)."""
import glob, os, subprocess, sys, concurrent.futures, queue, json
ROOT = os.path.dirname(os.path.dirname(os.path.abspath(__file__)))
a = sys.argv[1:]
pat, par, own, seed = a[0], 4, False, "1"
i = 1
while i < len(a):
    if a[i] == "--par": par = int(a[i+1]); i += 2
    elif a[i] == "--own": own = True; i += 1
    elif a[i] == "--seed": seed = a[i+1]; i += 2
    else: i += 1
dirs = sorted(glob.glob(os.path.join(ROOT, "seeded", pat)))
wts = queue.Queue()
for k in range(par):
    wt = "/tmp/evalwt%d" % k
    subprocess.run(["git", "-C", "/repo", "worktree", "remove", "--force", wt], stdout=subprocess.DEVNULL, stderr=subprocess.DEVNULL)
    subprocess.run(["git", "-C", "/repo", "worktree", "add", "--detach", "-f", wt, "HEAD"], stdout=subprocess.DEVNULL, stderr=subprocess.DEVNULL, check=True)
    wts.put(wt)
def one(d):
    wt = wts.get()
    try:
        if own:
            p = subprocess.run([sys.executable, os.path.join(ROOT, "tools/reeval.py"), d, wt, seed], stdout=subprocess.PIPE, stderr=subprocess.STDOUT, text=True)
            return p.stdout.strip()
        p = subprocess.run([sys.executable, os.path.join(ROOT, "tools/seedrun.py"), d, "--wt", wt, "--seed", seed], stdout=subprocess.PIPE, stderr=subprocess.PIPE, text=True)
        try:
            r = json.loads(p.stdout[p.stdout.index("{"):])
        except Exception:
            return os.path.basename(d) + " ERROR " + p.stdout[-300:] + p.stderr[-300:]
        old = {}
        rf = os.path.join(d, "result.json")
        if os.path.exists(rf):
            try: old = json.load(open(rf))
            except Exception: pass
        if "own_by_seed" in old: r["own_by_seed"] = old["own_by_seed"]
        json.dump(r, open(rf, "w"), indent=1, ensure_ascii=False)
        caught = [k for k, v in r.get("checks", {}).items() if v.startswith("CAUGHT")]
        ok = r.get("builds") and r.get("suite_passes") and r.get("demo_without_patch") == "pass" and r.get("demo_with_patch") == "FAIL"
        return "%s confirmed=%s caught=%s" % (os.path.basename(d), ok, ",".join(caught))
    finally:
        wts.put(wt)
with concurrent.futures.ThreadPoolExecutor(max_workers=par) as ex:
    for line in ex.map(one, dirs):
        print(line, flush=True)
while not wts.empty():
    subprocess.run(["git", "-C", "/repo", "worktree", "remove", "--force", wts.get()], stdout=subprocess.DEVNULL, stderr=subprocess.DEVNULL)
subprocess.run(["git", "-C", "/repo", "worktree", "prune"])
