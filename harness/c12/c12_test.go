// C12 — CORS grants exactly what was configured to allowed origins.
package c12

import (
	"strconv"
	"strings"
	"testing"

	"verif/harness/corsref"
	"verif/harness/rig"
)

func has(list []string, s string) bool {
	for _, x := range list {
		if x == s {
			return true
		}
	}
	return false
}

func deref(s *string) string {
	if s == nil {
		return "<absent>"
	}
	return *s
}

func check(c corsref.Case, st *rig.Stats) error {
	w, pv, panicked := corsref.TryBuild(c)
	if panicked {
		if c.Cfg.Refused() {
			st.Eval(c, false, "configuration-refused('*'-with-credentials)")
			return nil
		}
		return rig.Violf("construction-panicked", "building the router for %+v panicked: %v", c.Cfg, pv)
	}
	nontriv := false
	var classes []string
	for i, q := range c.Reqs {
		w.Advance(i)
		o := w.Serve(q)
		if o.Panicked {
			classes = append(classes, "panic(not-judged-here)")
			continue
		}
		f := corsref.Derive(c.Cfg, w.M, q, o)
		where := func() string {
			return rig.Violf("", "request %d %s %s origin=%v acrm=%v acrh=%v on route %q (allow %v), config %+v; response headers %v", i, q.Method, q.Path, deref(q.Origin), deref(q.ACRM), deref(q.ACRH), f.Route, f.RouteAllow, c.Cfg, o.Header).Msg
		}
		// requests that are not preflights never carry the preflight-only headers
		if !f.Preflight {
			for _, k := range []string{"Access-Control-Allow-Methods", "Access-Control-Allow-Headers", "Access-Control-Max-Age"} {
				if len(o.Header.Values(k)) > 0 {
					return rig.Violf("preflight-header-on-non-preflight", "%s present: %s", k, where())
				}
			}
		}
		// lower bound: only for requests the configuration allows
		allowedOrigin := f.OriginListed || (f.AnyOrigin && q.Origin != nil)
		if f.Deny || !allowedOrigin || !f.RouteLive || !f.MethodServed || q.PathClass != "witness" {
			classes = append(classes, "not-an-allowed-request(no-claim)")
			continue
		}
		if f.Preflight && (!f.ACRMServed || !f.HeadersOK) {
			classes = append(classes, "refused-preflight(no-claim)")
			continue
		}
		if q.Origin != nil && (f.Preflight || !f.AnyOrigin) {
			nontriv = true
		}
		acao := o.Header.Values("Access-Control-Allow-Origin")
		wantOrigin := "*"
		if !f.AnyOrigin {
			wantOrigin = *q.Origin
		}
		if len(acao) != 1 || (acao[0] != wantOrigin && !(f.OriginListed && acao[0] == *q.Origin)) {
			return rig.Violf("acao-missing", "allowed request without Access-Control-Allow-Origin %q: %s", wantOrigin, where())
		}
		acac := o.Header.Values("Access-Control-Allow-Credentials")
		if c.Cfg.Cred != (len(acac) == 1 && acac[0] == "true") || len(acac) > 1 {
			return rig.Violf("credentials-not-as-configured", "configured %v, got %v: %s", c.Cfg.Cred, acac, where())
		}
		exp := rig.SplitList(strings.Join(o.Header.Values("Access-Control-Expose-Headers"), ","))
		if !rig.EqualSets(exp, c.Cfg.Exposed) || len(exp) != len(c.Cfg.Exposed) {
			return rig.Violf("expose-headers-not-as-configured", "configured %v, got %v: %s", c.Cfg.Exposed, exp, where())
		}
		vary := corsref.VaryList(o.Header)
		if acao[0] != "*" && !has(vary, "origin") {
			return rig.Violf("vary-origin-missing", "the granted origin was picked from a list but Vary=%v does not name Origin: %s", vary, where())
		}
		if f.Preflight {
			classes = append(classes, "allowed-preflight")
			acam := rig.SplitList(strings.Join(o.Header.Values("Access-Control-Allow-Methods"), ","))
			if !rig.EqualSets(acam, f.RouteAllow) || len(acam) != len(f.RouteAllow) {
				return rig.Violf("allow-methods", "Access-Control-Allow-Methods=%v, the route's Allow set is %v: %s", acam, f.RouteAllow, where())
			}
			acah := rig.SplitList(strings.Join(o.Header.Values("Access-Control-Allow-Headers"), ","))
			switch {
			case len(c.Cfg.AllowHeaders) == 0:
				if len(acah) != 0 {
					return rig.Violf("allow-headers", "none configured, got %v: %s", acah, where())
				}
			case has(c.Cfg.AllowHeaders, "*"):
				if !has(acah, "*") {
					return rig.Violf("allow-headers", "'*' configured, got %v: %s", acah, where())
				}
			default:
				if !rig.EqualSets(acah, c.Cfg.AllowHeaders) {
					return rig.Violf("allow-headers", "configured %v, got %v: %s", c.Cfg.AllowHeaders, acah, where())
				}
			}
			ma := o.Header.Values("Access-Control-Max-Age")
			if c.Cfg.MaxAge == 0 && len(ma) != 0 || c.Cfg.MaxAge != 0 && (len(ma) != 1 || ma[0] != strconv.Itoa(c.Cfg.MaxAge)) {
				return rig.Violf("max-age", "configured %d, got %v: %s", c.Cfg.MaxAge, ma, where())
			}
			if !has(vary, "access-control-request-method") {
				return rig.Violf("vary-request-method-missing", "preflight answered but Vary=%v does not name Access-Control-Request-Method: %s", vary, where())
			}
			if len(acah) > 0 && !has(acah, "*") && !has(vary, "access-control-request-headers") {
				return rig.Violf("vary-request-headers-missing", "an allow-list is sent but Vary=%v does not name Access-Control-Request-Headers: %s", vary, where())
			}
			if len(f.RequestedHdrs) > 0 {
				classes = append(classes, "allowed-preflight-with-requested-headers")
			}
		} else {
			classes = append(classes, "allowed-simple-request")
		}
	}
	if c.Sibling != nil {
		classes = append(classes, "sibling-router-cut-from-the-same-option-arrays")
	}
	for _, rt := range c.Routes {
		if len(rt.Remove) > 0 && rt.RemoveAt > 0 && rt.RemoveAt < len(c.Reqs) {
			classes = append(classes, "methods-removed-between-two-requests")
		}
	}
	st.Eval(c, nontriv, classes...)
	return nil
}

var stats = rig.NewStats("C12",
	"same generator as C11 (configuration x routes with removals before or between requests x optional sibling router sharing the option arrays x requests with random header case and spacing, some repeated verbatim). For requests the configuration allows (Origin exactly listed, or any Origin under '*'; live route; served method; for preflights a served requested method and only allowed requested headers compared case-insensitively) the response must carry ACAO, Allow-Credentials and Expose-Headers exactly as configured; allowed preflights additionally Allow-Methods == the route's Allow set, the configured Allow-Headers and Max-Age, and Vary naming Access-Control-Request-Method (and Access-Control-Request-Headers when an allow-list is sent); Vary names Origin whenever the origin came from a list; non-preflights never carry the three preflight-only headers. Non-trivial: allowed request with an Origin that is a preflight or answered from a list; distinct by hash of the case. Later additions to the generated domain: Same generator as C11: big origin lists and long origins, WithAllowedCORS, routes that gain methods between requests, all recovery options. Same generator as C11 (non-token header names; dotted-i near misses).",
	"requests without an Origin header under a '*' configuration carry no lower-bound claim",
	"a configured '*' for allowed headers may be sent together with Authorization")

func TestProp(t *testing.T) { rig.RunProp(t, stats, corsref.Gen, check) }

func FuzzProp(f *testing.F) { rig.FuzzProp(f, stats, corsref.Gen, check) }
