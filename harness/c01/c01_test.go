// C01 — dispatch soundness: reported route, handler, path and parameters agree.
package c01

import (
	"fmt"
	"strings"
	"testing"

	"pgregory.net/rapid"

	"verif/harness/life"
	"verif/harness/pat"
	"verif/harness/rig"
)

type Probe struct {
	Method string `json:"m"`
	Path   string `json:"path"`
}

type Case struct {
	Icpt   string    `json:"icpt"`
	Trace  bool      `json:"trace"`
	Pool   []string  `json:"pool"`
	Ops    []life.Op `json:"ops"`
	Probes [][]Probe `json:"probes"` // probes sent after op i
}

var methods = []string{"GET", "GET", "GET", "HEAD", "POST", "PUT", "DELETE", "OPTIONS", "PATCH", "CONNECT", "TRACE", "BOGUS", "get"}

func gen(t *rapid.T) Case {
	cfg := pat.GenCfg(t, false)
	cfg.Alt = true
	c := Case{Icpt: cfg.IcptName, Trace: rapid.IntRange(0, 5).Draw(t, "trace") == 0}
	c.Pool = pat.GenPool(t, cfg, rapid.IntRange(6, rig.Up(14)).Draw(t, "npool"))
	c.Ops = life.GenOps(t, cfg, c.Pool, rapid.IntRange(1, rig.Up(25)).Draw(t, "nops"),
		life.GenOpts{Facades: false, Hostile: true, NewMethods: true, Trace: c.Trace})
	var parsed []*pat.Pattern
	for _, p := range c.Pool {
		parsed = append(parsed, pat.MustParse(p, cfg.Icpt))
	}
	for k, op := range c.Ops {
		var ps []Probe
		for i, n := 0, rapid.IntRange(1, 4).Draw(t, "nprobes"); i < n; i++ {
			ps = append(ps, Probe{Method: rapid.SampledFrom(methods).Draw(t, "method"), Path: pat.GenPath(t, parsed)})
		}
		// and a look at what the operation just touched: a path built from its own pattern
		if pp, err := pat.Parse(op.Pattern, cfg.Icpt); err == nil && op.Pattern != "" {
			if w, _, ok := pp.Witness(k); ok {
				ps = append(ps, Probe{Method: rapid.SampledFrom(methods).Draw(t, "touchedMethod"), Path: w})
			}
		}
		c.Probes = append(c.Probes, ps)
	}
	return c
}

func check(c Case, st *rig.Stats) error {
	env := rig.NewEnv()
	s := life.NewSys(env, c.Icpt, rig.Opts{Trace: c.Trace})
	nontriv := false
	var classes []string
	hist := func(i int) string {
		var out []string
		for j := 0; j <= i; j++ {
			out = append(out, c.Ops[j].String())
		}
		return fmt.Sprint(out)
	}
	for i, op := range c.Ops {
		s.Apply(op)
		if v := s.Complaint(); v != nil {
			return v
		}
		if i >= len(c.Probes) {
			continue
		}
		live := s.LiveParsed()
		for _, pr := range c.Probes[i] {
			if pr.Path == "" || pr.Path == "*" {
				classes = append(classes, "special-path-skipped")
				continue
			}
			if c.Trace && pr.Method == "TRACE" {
				classes = append(classes, "trace-skipped")
				continue
			}
			o := s.Get(pr.Method, pr.Path)
			if o.HandlerNil {
				// (calling it panics, which is C05's subject; that the router hands over no handler at all is this one's)
				return rig.Violf("zero-handler", "%s %q was handed a zero handler (route %q, params %v); live %v; history %s", pr.Method, pr.Path, o.Pattern, o.Params, s.M.Live(), hist(i))
			}
			if o.Panicked {
				classes = append(classes, "panic(not-judged-here)")
				continue
			}
			if o.Called != 1 {
				return rig.Violf("call-count", "%s %q: CallFunc ran %d times; history %s", pr.Method, pr.Path, o.Called, hist(i))
			}
			if o.BaseKind == "404" {
				classes = append(classes, "404")
				if len(o.Params) != 0 || !o.NodeNil {
					return rig.Violf("404-with-params", "%s %q answered 404 but reports params %v (node nil: %v); live %v; history %s", pr.Method, pr.Path, o.Params, o.NodeNil, s.M.Live(), hist(i))
				}
				for _, q := range live {
					if q.NParams() > 0 {
						k := 0
						for k < len(q.Atoms) && q.Atoms[k].IsLit() {
							k++
						}
						if strings.HasPrefix(pr.Path, q.LitRun(0)) && k < len(q.Atoms) {
							nontriv = true
							classes = append(classes, "404-after-entering-a-parameter-branch")
							break
						}
					}
				}
				continue
			}
			if o.HandlerNil {
				return rig.Violf("zero-handler", "%s %q was handed a zero handler (route %q); history %s", pr.Method, pr.Path, o.Pattern, hist(i))
			}
			if o.NodeNil {
				return rig.Violf("no-route-reported", "%s %q ran %s but reports no node; history %s", pr.Method, pr.Path, o.HandlerID, hist(i))
			}
			sel := s.Parsed(o.Pattern)
			if s.M.R[o.Pattern] == nil || sel == nil {
				return rig.Violf("route-not-live", "%s %q reports route %q which is not registered; live %v; history %s", pr.Method, pr.Path, o.Pattern, s.M.Live(), hist(i))
			}
			want := s.M.Serves(o.Pattern, pr.Method)
			switch {
			case want != "":
				classes = append(classes, "handler")
				if o.BaseKind != "route" || o.BaseID != want {
					return rig.Violf("wrong-handler", "%s %q on %q ran %s(%s), registered is %s; history %s", pr.Method, pr.Path, o.Pattern, o.BaseID, o.BaseKind, want, hist(i))
				}
			case pr.Method == "OPTIONS":
				classes = append(classes, "options")
				if o.BaseKind != "options" || o.BuiltFor != o.Pattern {
					return rig.Violf("wrong-options-handler", "OPTIONS %q on %q ran %s(%s) built for %q; history %s", pr.Path, o.Pattern, o.BaseID, o.BaseKind, o.BuiltFor, hist(i))
				}
			default:
				classes = append(classes, "405")
				if o.BaseKind != "405" || o.BuiltFor != o.Pattern {
					return rig.Violf("wrong-405-handler", "%s %q on %q (allow %v) ran %s(%s) built for %q; history %s", pr.Method, pr.Path, o.Pattern, s.M.AllowSet(o.Pattern), o.BaseID, o.BaseKind, o.BuiltFor, hist(i))
				}
			}
			if !sel.Conforms(pr.Path, o.Params) {
				return rig.Violf("not-conforming", "%s %q dispatched to %q with params %v: the path is not the pattern under these values (capturing names %v); live %v; history %s",
					pr.Method, pr.Path, o.Pattern, o.Params, sel.Capturing(), s.M.Live(), hist(i))
			}
			if o.RouterName != "r" {
				return rig.Violf("router-name", "%s %q reports router %q", pr.Method, pr.Path, o.RouterName)
			}
			if sel.NParams() > 0 {
				if sib, _ := life.Siblings(sel, live); sib {
					nontriv = true
					classes = append(classes, "param-route-with-sibling-branch")
				}
			}
		}
	}
	st.Eval(c, nontriv, classes...)
	return nil
}

var stats = rig.NewStats("C01",
	"rapid draws an interceptor set, a pool of 6-14 well-formed patterns (free rule pool, shared prefixes, sibling parameter branches), a history of 1-25 Handle/Remove/Clean steps and 1-4 probes (13 method spellings x paths derived from pool patterns with values over the literal and value alphabets and one-byte mutations) after every step; every non-404 answer must report a live route, the handler registered for (route, method) or the route's own built OPTIONS/405 handler, and params under which the independent conformance matcher reproduces the path byte for byte; 404 reports no params and no node. Non-trivial: a probe was dispatched to a route with >=1 parameter while another live route shares its text up to a parameter position, or ended in 404 after a parameter branch could be entered; distinct by hash of the case. Later additions to the generated domain: One pool in twelve holds a structure of unusual size (a node with 11-45 literal children, dozens of regexp siblings that are each tried and given up, routes with 9-34 parameters next to a catch-all); one history in five opens with a pattern, an extension of it and a Prefix.Clean between them. Interceptor sets include rule names that differ in letter case only; rules include '.+' and '\\\\d.\\\\d'; one parameter value in twenty is odd text (KELVIN SIGN, dotted / dotless i, long s, non-ASCII digits, invalid UTF-8, line breaks, NUL, separators, '%'); literal text may hold '%'.",
	"paths '' and '*' and TRACE under WithTrace select the internal root node and are judged by C04/C05/C18, not here",
	"panics are counted, not judged (C03/C05)")

func TestProp(t *testing.T) { rig.RunProp(t, stats, gen, check) }

func FuzzProp(f *testing.F) { rig.FuzzProp(f, stats, gen, check) }
