// Package rig is the harness router: a handler type whose identity is a string,
// a CallFunc that records everything the properties observe, a recording
// ResponseWriter, and middleware factories that log their wrap-time arguments.
// It only uses the public API of issue9/mux.
package rig

import (
	"context"
	"errors"
	"fmt"
	"net"
	"net/http"
	"net/url"
	"runtime"
	"sort"
	"strings"

	"github.com/issue9/mux/v9"
	"github.com/issue9/mux/v9/types"

	"verif/harness/pat"
)

// Action is one step of a handler script.
type Action struct {
	Op   string `json:"op"` // set add del status write
	K    string `json:"k,omitempty"`
	V    string `json:"v,omitempty"`
	Code int    `json:"code,omitempty"`
	N    int    `json:"n,omitempty"`
}

// H is the handler type T of every harness router.
type H struct {
	ID     string
	Kind   string     // route 404 405 options trace gnf mw
	Node   types.Node // for built 405 / options handlers
	Next   *H         // for middleware wrappers
	MW     string     // middleware name for wrappers
	Script []Action
	Body   bool // trace handler: include body
}

// Base returns the innermost handler of a middleware onion.
func (h *H) Base() *H {
	for h != nil && h.Next != nil {
		h = h.Next
	}
	return h
}

// Onion returns the middleware names outermost first.
func (h *H) Onion() []string {
	var out []string
	for ; h != nil && h.Next != nil; h = h.Next {
		out = append(out, h.MW)
	}
	return out
}

// WrapRec is what a middleware factory saw at wrap time.
type WrapRec struct {
	MW, Method, Pattern, Router, NextID string
}

// Env owns the id counter and the factory log of one case.
type Env struct {
	mwCount int
	n       int
	Log     []WrapRec
	Built   []*H // handlers produced by the 405 / OPTIONS builders, in order
	Recov   []any
	RecovN  int
}

func NewEnv() *Env { return &Env{} }

func (e *Env) next(prefix string) string {
	e.n++
	return fmt.Sprintf("%s#%d", prefix, e.n)
}

// NewH creates a route handler with a fresh unique id.
func (e *Env) NewH(script ...Action) *H {
	return &H{ID: e.next("h"), Kind: "route", Script: script}
}

func (e *Env) NotFound() *H { return &H{ID: e.next("404"), Kind: "404"} }

func (e *Env) TraceH(body bool) *H { return &H{ID: e.next("trace"), Kind: "trace", Body: body} }

func (e *Env) Build405(n types.Node) *H {
	h := &H{ID: e.next("405"), Kind: "405", Node: n}
	e.Built = append(e.Built, h)
	return h
}

func (e *Env) BuildOptions(n types.Node) *H {
	h := &H{ID: e.next("options"), Kind: "options", Node: n}
	e.Built = append(e.Built, h)
	return h
}

// MW is a named middleware factory.
type MW struct {
	Name string
	Env  *Env
}

func (m *MW) Middleware(next *H, method, pattern, router string) *H {
	id := "<nil>"
	if next != nil {
		id = next.ID
	}
	m.Env.Log = append(m.Env.Log, WrapRec{MW: m.Name, Method: method, Pattern: pattern, Router: router, NextID: id})
	return &H{ID: m.Name + "(" + id + ")", Kind: "mw", MW: m.Name, Next: next}
}

// NewMW returns the factory in one of the two forms a caller can write it in: every second one is the method value
// wrapped in types.MiddlewareFunc.
func (e *Env) NewMW(name string) types.Middleware[*H] {
	m := &MW{Name: name, Env: e}
	e.mwCount++
	if e.mwCount%2 == 0 {
		return types.MiddlewareFunc[*H](m.Middleware)
	}
	return m
}

// Outcome is everything observed about one request.
type Outcome struct {
	Called      int
	HandlerID   string
	HandlerNil  bool
	BaseID      string
	BaseKind    string
	BuiltFor    string // for built 405 / OPTIONS handlers: Pattern() of the node they were built for
	Pattern     string
	NodeNil     bool
	Params      map[string]string
	ParamsAfter map[string]string // read again after the handler returned: the context is the request's own until then
	RouterName  string
	NodeMethods []string
	NodeAllow   string
	URLPath     string
	URLRawPath  string   // URL.RawPath as the handler saw it
	Trace       []string // middleware names run at request time, outermost first

	Status     int // explicit or implied status; 0 when nothing was written
	Header     http.Header
	HeaderAtWH http.Header // snapshot at WriteHeader / first Write
	Body       []byte
	WHCalls    int
	Writes     int
	BaseRuns   int // how often the innermost handler body ran

	Fired     bool // the fault plan of this request raised its panic
	Panicked  bool
	PanicVal  any
	PanicKind string // injected error runtime other

	// fault plan of this request
	PanicAt    string // handler ID (or MW name) at which to panic
	PanicAfter bool
	PanicWith  any

	// nested request: the base handler serves Sub through SubHandler before it answers
	Sub        *Req
	SubHandler http.Handler
	SubOutcome *Outcome
}

// EffStatus is the status the client sees.
func (o *Outcome) EffStatus() int {
	if o.Status == 0 {
		return 200
	}
	return o.Status
}

// Allow returns the Allow response header split into a sorted set.
func (o *Outcome) Allow() []string { return SplitList(o.Header.Get("Allow")) }

func SplitList(s string) []string {
	var out []string
	for _, x := range strings.Split(s, ",") {
		if x = strings.TrimSpace(x); x != "" {
			out = append(out, x)
		}
	}
	sort.Strings(out)
	return out
}

type ctxKey struct{}

// Rec is the recording ResponseWriter.
type Rec struct {
	o   *Outcome
	hdr http.Header
	// failAfter > 0: the connection "goes away" once that many body bytes were taken - the Write that crosses the
	// limit is cut short and returns an error, like a client that hung up
	failAfter int
}

func (r *Rec) Header() http.Header { return r.hdr }

func (r *Rec) WriteHeader(code int) {
	r.o.WHCalls++
	if r.o.Status != 0 {
		return
	}
	r.o.Status = code
	r.o.HeaderAtWH = r.hdr.Clone()
}

func (r *Rec) Write(b []byte) (int, error) {
	if r.o.Status == 0 {
		r.o.Status = 200
		r.o.HeaderAtWH = r.hdr.Clone()
	}
	r.o.Writes++
	if r.failAfter > 0 && len(r.o.Body)+len(b) > r.failAfter {
		n := r.failAfter - len(r.o.Body)
		if n < 0 {
			n = 0
		}
		r.o.Body = append(r.o.Body, b[:n]...)
		return n, errors.New("write: connection reset by peer")
	}
	r.o.Body = append(r.o.Body, b...)
	return len(b), nil
}

// Call is the CallFunc of every harness router.
func Call(w http.ResponseWriter, r *http.Request, route types.Route, h *H) {
	o, _ := r.Context().Value(ctxKey{}).(*Outcome)
	if o == nil {
		o = &Outcome{}
	}
	o.Called++
	o.URLPath = r.URL.Path
	o.URLRawPath = r.URL.RawPath
	o.RouterName = route.RouterName()
	if n := route.Node(); n != nil {
		o.Pattern = n.Pattern()
		o.NodeMethods = append([]string{}, n.Methods()...)
		o.NodeAllow = n.AllowHeader()
		o.NodeNil = false
	} else {
		o.NodeNil = true
	}
	o.Params = map[string]string{}
	route.Params().Range(func(k, v string) { o.Params[k] = v })
	if h == nil {
		o.HandlerNil = true
	} else {
		o.HandlerID = h.ID
		if b := h.Base(); b != nil {
			o.BaseID, o.BaseKind = b.ID, b.Kind
			if b.Node != nil {
				o.BuiltFor = b.Node.Pattern()
			}
		}
	}
	defer func() {
		o.ParamsAfter = map[string]string{}
		route.Params().Range(func(k, v string) { o.ParamsAfter[k] = v })
	}()
	h.exec(w, r, o)
}

func (h *H) exec(w http.ResponseWriter, r *http.Request, o *Outcome) {
	_ = h.ID // a zero T faults here, like a nil http.Handler would
	label := h.ID
	if h.Kind == "mw" {
		label = h.MW
		o.Trace = append(o.Trace, h.MW)
	}
	hit := o.PanicAt != "" && (o.PanicAt == label || o.PanicAt == h.ID || (o.PanicAt == "base" && h.Kind != "mw"))
	if hit && !o.PanicAfter {
		o.Fired = true
		panic(o.PanicWith)
	}
	if h.Next != nil || h.Kind == "mw" {
		h.Next.exec(w, r, o)
		if hit && o.PanicAfter {
			o.Fired = true
			panic(o.PanicWith)
		}
		return
	}
	o.BaseRuns++
	if o.Sub != nil && o.SubHandler != nil && o.SubOutcome == nil {
		// a handler that issues a request of its own to the same router / group while it is being served
		o.SubOutcome = Serve(o.SubHandler, *o.Sub)
	}
	switch h.Kind {
	case "options":
		w.Header().Set("Allow", h.Node.AllowHeader())
		w.WriteHeader(http.StatusOK)
	case "405":
		w.Header().Set("Allow", h.Node.AllowHeader())
		w.WriteHeader(http.StatusMethodNotAllowed)
	case "404", "gnf":
		w.WriteHeader(http.StatusNotFound)
	case "trace":
		mux.Trace(w, r, h.Body)
	default:
		if len(h.Script) == 0 {
			w.Write([]byte(h.ID))
		}
		for _, a := range h.Script {
			switch a.Op {
			case "set":
				w.Header().Set(a.K, a.V)
			case "add":
				w.Header().Add(a.K, a.V)
			case "del":
				w.Header().Del(a.K)
			case "status":
				w.WriteHeader(a.Code)
			case "write":
				w.Write([]byte(strings.Repeat("b", a.N)))
			case "panic":
				panic("script panic " + a.V)
			}
		}
	}
	if hit && o.PanicAfter {
		o.Fired = true
		panic(o.PanicWith)
	}
}

// Req describes a request built by hand (no parsing, no validation).
type Req struct {
	Method string              `json:"method"`
	Path   string              `json:"path"`
	Host   string              `json:"host,omitempty"`
	Header map[string][]string `json:"header,omitempty"`
	Body   string              `json:"body,omitempty"`
	// UnknownLength sends the body with ContentLength -1 (a chunked upload, or a request built from a plain io.Reader)
	UnknownLength bool `json:"unknown_length,omitempty"`
	// Chunked marks the request as received with Transfer-Encoding: chunked (what a server hands to the handler for such an upload)
	Chunked bool `json:"chunked,omitempty"`
	// RawPath: the escaped spelling the request target was written in (URL.RawPath), when it differs from the default encoding of Path
	RawPath string `json:"raw_path,omitempty"`
	// FailWriteAfter > 0: the response writer fails once that many body bytes were written
	FailWriteAfter int `json:"fail_write_after,omitempty"`

	// UnderServer: the request context carries http.ServerContextKey and http.LocalAddrContextKey, as every request does
	// that net/http's server hands to a handler (requests built by hand or by httptest do not)
	UnderServer bool `json:"under_server,omitempty"`

	PanicAt    string `json:"panic_at,omitempty"`
	PanicAfter bool   `json:"panic_after,omitempty"`
	PanicWith  any    `json:"-"`

	Sub        *Req         `json:"sub,omitempty"` // nested request issued by the base handler
	SubHandler http.Handler `json:"-"`
}

// Build makes the *http.Request and the Outcome it reports into.
func (q Req) Build() (*http.Request, *Outcome, *Rec) {
	o := &Outcome{PanicAt: q.PanicAt, PanicAfter: q.PanicAfter, PanicWith: q.PanicWith, Sub: q.Sub, SubHandler: q.SubHandler}
	hdr := http.Header{}
	for k, v := range q.Header {
		hdr[k] = append([]string{}, v...)
	}
	r := &http.Request{
		Method: q.Method, URL: &url.URL{Path: q.Path, RawPath: q.RawPath}, Host: q.Host, Header: hdr,
		Proto: "HTTP/1.1", ProtoMajor: 1, ProtoMinor: 1, RequestURI: q.Path,
	}
	if q.Body != "" {
		r.Body = nopCloser{strings.NewReader(q.Body)}
		r.ContentLength = int64(len(q.Body))
		if q.UnknownLength {
			r.ContentLength = -1
		}
	}
	if q.Chunked {
		r.TransferEncoding = []string{"chunked"}
	}
	ctx := context.WithValue(context.Background(), ctxKey{}, o)
	if q.UnderServer {
		ctx = context.WithValue(ctx, http.ServerContextKey, &http.Server{})
		ctx = context.WithValue(ctx, http.LocalAddrContextKey, net.Addr(&net.TCPAddr{IP: net.IPv4(127, 0, 0, 1), Port: 80}))
	}
	r = r.WithContext(ctx)
	rec := &Rec{o: o, hdr: http.Header{}, failAfter: q.FailWriteAfter}
	return r, o, rec
}

type nopCloser struct{ *strings.Reader }

func (nopCloser) Close() error { return nil }

// Serve runs one request under recover and returns what was observed.
func Serve(h http.Handler, q Req) *Outcome {
	r, o, rec := q.Build()
	func() {
		defer func() {
			if v := recover(); v != nil {
				o.Panicked = true
				o.PanicVal = v
				o.PanicKind = ClassifyPanic(v, q.PanicWith)
			}
		}()
		h.ServeHTTP(rec, r)
	}()
	o.Header = rec.hdr.Clone()
	return o
}

// ClassifyPanic: injected (the identical value the fault plan asked for),
// runtime (a runtime.Error), error, or other.
func ClassifyPanic(v, injected any) string {
	if injected != nil && same(v, injected) {
		return "injected"
	}
	if _, ok := v.(runtime.Error); ok {
		return "runtime"
	}
	if _, ok := v.(error); ok {
		return "error"
	}
	return "other"
}

func same(a, b any) (eq bool) {
	defer func() {
		if recover() != nil {
			eq = false
		}
	}()
	return a == b
}

// Opts configures NewRouter.
type Opts struct {
	Trace     bool
	TraceBody bool
	Lock      bool
	Icpt      map[string]string // rule -> function name
	Extra     []mux.Option
}

// Options renders Opts into mux options; the trace handler (if any) is returned too.
func (e *Env) Options(o Opts) ([]mux.Option, *H) {
	var opts []mux.Option
	var th *H
	if o.Trace {
		th = e.TraceH(o.TraceBody)
		opts = append(opts, mux.WithTrace(th))
	}
	if o.Lock {
		opts = append(opts, mux.WithLock(true))
	}
	var rules []string
	for r := range o.Icpt {
		rules = append(rules, r)
	}
	sort.Strings(rules)
	for _, r := range rules {
		fn := o.Icpt[r]
		switch fn {
		case "digit":
			opts = append(opts, mux.WithDigitInterceptor(r))
		case "word":
			opts = append(opts, mux.WithWordInterceptor(r))
		case "any":
			opts = append(opts, mux.WithAnyInterceptor(r))
		default:
			f := pat.Funcs[fn]
			if f == nil {
				panic("harness: unknown interceptor function " + fn)
			}
			opts = append(opts, mux.WithInterceptor(f, r))
		}
	}
	opts = append(opts, o.Extra...)
	return opts, th
}

// Router bundles a router with the fixed handlers created for it.
type Router struct {
	*mux.Router[*H]
	Env      *Env
	NotFound *H
	TraceH   *H
}

func (e *Env) NewRouter(name string, o Opts) *Router {
	opts, th := e.Options(o)
	nf := e.NotFound()
	r := mux.NewRouter[*H](name, Call, nf, e.Build405, e.BuildOptions, opts...)
	return &Router{Router: r, Env: e, NotFound: nf, TraceH: th}
}

// Group bundles a group with its not-found handler.
type Group struct {
	*mux.Group[*H]
	Env      *Env
	NotFound *H
}

func (e *Env) NewGroup(extra ...mux.Option) *Group {
	nf := &H{ID: e.next("gnf"), Kind: "gnf"}
	g := mux.NewGroup[*H](Call, nf, e.Build405, e.BuildOptions, extra...)
	return &Group{Group: g, Env: e, NotFound: nf}
}

// Try runs f under recover and reports the recovered value.
func Try(f func()) (v any, panicked bool) {
	defer func() {
		if r := recover(); r != nil {
			v, panicked = r, true
		}
	}()
	f()
	return nil, false
}

// SortedKeys of a params map.
func SortedKeys(m map[string]string) []string {
	ks := make([]string, 0, len(m))
	for k := range m {
		ks = append(ks, k)
	}
	sort.Strings(ks)
	return ks
}

// EqualSets compares two string slices as sets.
func EqualSets(a, b []string) bool {
	x := append([]string{}, a...)
	y := append([]string{}, b...)
	sort.Strings(x)
	sort.Strings(y)
	x = dedup(x)
	y = dedup(y)
	if len(x) != len(y) {
		return false
	}
	for i := range x {
		if x[i] != y[i] {
			return false
		}
	}
	return true
}

func dedup(s []string) []string {
	out := s[:0]
	for i, v := range s {
		if i == 0 || v != s[i-1] {
			out = append(out, v)
		}
	}
	return out
}

// EqualParams compares two params maps.
func EqualParams(a, b map[string]string) bool {
	if len(a) != len(b) {
		return false
	}
	for k, v := range a {
		if w, ok := b[k]; !ok || w != v {
			return false
		}
	}
	return true
}

// FmtParams renders a parameter map with sorted keys.
func FmtParams(m map[string]string) string {
	keys := make([]string, 0, len(m))
	for k := range m {
		keys = append(keys, k)
	}
	sort.Strings(keys)
	var sb strings.Builder
	for _, k := range keys {
		sb.WriteString(k + "=" + m[k] + ";")
	}
	return sb.String()
}
