package rig

import (
	"bytes"
	"context"
	"encoding/base64"
	"encoding/gob"
	"encoding/json"
	"fmt"
	"os"
	"os/exec"
	"regexp"
	"strings"
	"time"
)

// ChildResult is what the parent learns from one child process.
type ChildResult struct {
	Kind   string // ok race fatal oracle timeout other
	Sig    string // defect signature (race: unordered pair of top mux frames; oracle: clause)
	Detail string
	Stats  map[string]float64
	Exit   int
}

// EncodeCase / DecodeCase move a case between parent and child byte-exactly.
func EncodeCase(c any) (string, error) {
	var b bytes.Buffer
	if err := gob.NewEncoder(&b).Encode(c); err != nil {
		return "", err
	}
	return base64.StdEncoding.EncodeToString(b.Bytes()), nil
}

func DecodeCase(s string, c any) error {
	raw, err := base64.StdEncoding.DecodeString(s)
	if err != nil {
		return err
	}
	return gob.NewDecoder(bytes.NewReader(raw)).Decode(c)
}

// ChildCase returns the case handed to this process by RunChild ("" when this
// process is not a child).
func ChildCase() string {
	if f := os.Getenv("VERIF_CHILD_CASE_FILE"); f != "" {
		b, err := os.ReadFile(f)
		if err != nil {
			fmt.Println("cannot read the case file:", err)
			os.Exit(4)
		}
		return string(b)
	}
	return os.Getenv("VERIF_CHILD_CASE")
}

// ChildOK is called by the child when everything held.
func ChildOK(stats map[string]float64) {
	b, _ := json.Marshal(stats)
	fmt.Printf("\nCHILD-RESULT %s\n", b)
}

// ChildViolation is called by the child when its own oracle failed.
func ChildViolation(v *Violation) {
	fmt.Printf("\nCHILD-VIOLATION %s: %s\n", v.Clause, strings.ReplaceAll(v.Msg, "\n", " "))
	os.Exit(3)
}

var (
	reFrame  = regexp.MustCompile(`(?m)^\s+(github\.com/issue9/mux/v9\S*)\(\)\s*$`)
	reGen    = regexp.MustCompile(`\[[^\]]*\]`)
	reResult = regexp.MustCompile(`(?m)^CHILD-RESULT (.*)$`)
	reViol   = regexp.MustCompile(`(?m)^CHILD-VIOLATION ([^:]+): (.*)$`)
)

// topMuxFrame returns the first issue9/mux frame of a stack block.
func topMuxFrame(block string) string {
	m := reFrame.FindStringSubmatch(block)
	if m == nil {
		return "?"
	}
	f := m[1]
	f = strings.TrimPrefix(f, "github.com/issue9/mux/v9")
	f = reGen.ReplaceAllString(f, "")
	return strings.TrimPrefix(f, "/")
}

// RunChild re-executes the current test binary as a child running test
// function childTest on the encoded case.
func RunChild(childTest, encoded string, gomaxprocs int, timeout time.Duration) ChildResult {
	ctx, cancel := context.WithTimeout(context.Background(), timeout)
	defer cancel()
	// the case travels in a file: a long program does not fit into an environment variable
	cf, err := os.CreateTemp("", "verif-case-*")
	if err != nil {
		return ChildResult{Kind: "other", Detail: err.Error()}
	}
	cf.WriteString(encoded)
	cf.Close()
	defer os.Remove(cf.Name())
	cmd := exec.CommandContext(ctx, os.Args[0], "-test.run", "^"+childTest+"$", "-test.timeout", "0")
	cmd.Env = append(os.Environ(),
		"VERIF_CHILD_CASE_FILE="+cf.Name(),
		"GORACE=halt_on_error=1 exitcode=66",
		fmt.Sprintf("GOMAXPROCS=%d", gomaxprocs),
		"VERIF_REPLAY=", "VERIF_STATS=", "VERIF_REPLAY_OUT=")
	var out bytes.Buffer
	cmd.Stdout = &out
	cmd.Stderr = &out
	err = cmd.Run()
	res := ChildResult{Detail: out.String(), Stats: map[string]float64{}}
	if ctx.Err() != nil {
		res.Kind = "timeout"
		return res
	}
	if ee, ok := err.(*exec.ExitError); ok {
		res.Exit = ee.ExitCode()
	} else if err != nil {
		res.Kind, res.Detail = "other", err.Error()+"\n"+res.Detail
		return res
	}
	s := res.Detail
	switch {
	case strings.Contains(s, "WARNING: DATA RACE"):
		res.Kind = "race"
		// two stack blocks: the access, and the previous access
		i := strings.Index(s, "WARNING: DATA RACE")
		body := s[i:]
		parts := regexp.MustCompile(`(?m)^Previous (read|write) at`).Split(body, 2)
		a, b := topMuxFrame(parts[0]), "?"
		if len(parts) == 2 {
			prev := parts[1]
			if j := strings.Index(prev, "\nGoroutine "); j >= 0 {
				prev = prev[:j]
			}
			b = topMuxFrame(prev)
		}
		first := parts[0]
		if j := strings.Index(first, "\nGoroutine "); j >= 0 {
			first = first[:j]
		}
		a = topMuxFrame(first)
		if a > b {
			a, b = b, a
		}
		res.Sig = "race:" + a + "<->" + b
	case strings.Contains(s, "fatal error:"):
		res.Kind = "fatal"
		i := strings.Index(s, "fatal error:")
		line := s[i:]
		if j := strings.IndexByte(line, '\n'); j >= 0 {
			line = line[:j]
		}
		res.Sig = "fatal:" + strings.TrimSpace(strings.TrimPrefix(line, "fatal error:"))
	case reViol.MatchString(s):
		m := reViol.FindStringSubmatch(s)
		res.Kind, res.Sig = "oracle", "oracle:"+m[1]
		res.Detail = m[1] + ": " + m[2]
	case res.Exit == 0 && reResult.MatchString(s):
		res.Kind = "ok"
		_ = json.Unmarshal([]byte(reResult.FindStringSubmatch(s)[1]), &res.Stats)
	default:
		res.Kind = "other"
	}
	return res
}
