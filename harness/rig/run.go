package rig

import (
	"bytes"
	"encoding/base64"
	"encoding/gob"
	"encoding/json"
	"fmt"
	"hash/fnv"
	"os"
	"reflect"
	"sort"
	"strconv"
	"strings"
	"sync"
	"testing"

	"pgregory.net/rapid"
)

// Violation is a failed oracle clause.
type Violation struct {
	Clause string // short, stable name of the clause
	Msg    string
}

func (v *Violation) Error() string { return v.Clause + ": " + v.Msg }

func Violf(clause, format string, a ...any) *Violation {
	return &Violation{Clause: clause, Msg: fmt.Sprintf(format, a...)}
}

// Stats collects what a run actually covered.
type Stats struct {
	mu        sync.Mutex
	Property  string
	Rule      string
	Evals     int64
	NonTriv   int64
	distinct  map[uint64]struct{}
	Classes   map[string]int64
	Excluded  map[string]int64
	Samples   []json.RawMessage
	nextSamp  int64
	Assume    []string
	Violation *ReplayFile
}

func NewStats(property, rule string, assume ...string) *Stats {
	return &Stats{Property: property, Rule: rule, distinct: map[uint64]struct{}{},
		Classes: map[string]int64{}, Excluded: map[string]int64{}, nextSamp: 1, Assume: assume}
}

// Eval records one evaluated case. key is any JSON-serialisable description of
// the case (used for distinctness and samples).
func (s *Stats) Eval(key any, nontrivial bool, classes ...string) {
	s.mu.Lock()
	defer s.mu.Unlock()
	s.Evals++
	for _, c := range classes {
		s.Classes[c]++
	}
	if !nontrivial {
		return
	}
	s.NonTriv++
	b, err := json.Marshal(key)
	if err != nil {
		b = []byte(fmt.Sprintf("%q", fmt.Sprint(key)))
	}
	h := fnv.New64a()
	h.Write(b)
	s.distinct[h.Sum64()] = struct{}{}
	if s.NonTriv == s.nextSamp && len(s.Samples) < 10 {
		if len(b) > 6000 {
			b, _ = json.Marshal(string(b[:6000]) + "…(truncated)")
		}
		s.Samples = append(s.Samples, json.RawMessage(b))
		s.nextSamp *= 3
	}
}

// Class counts a class without counting an evaluation.
func (s *Stats) Class(c string) {
	s.mu.Lock()
	s.Classes[c]++
	s.mu.Unlock()
}

// Exclude counts a case or clause skipped because of a listed known finding.
func (s *Stats) Exclude(tok string) {
	s.mu.Lock()
	s.Excluded[tok]++
	s.mu.Unlock()
}

type statsFile struct {
	Property    string            `json:"property"`
	Rule        string            `json:"rule"`
	Evals       int64             `json:"evaluations"`
	NonTriv     int64             `json:"nontrivial"`
	Distinct    int64             `json:"distinct_nontrivial"`
	DistinctSet []uint64          `json:"distinct_hashes,omitempty"`
	Classes     map[string]int64  `json:"classes"`
	Excluded    map[string]int64  `json:"excluded"`
	Samples     []json.RawMessage `json:"samples"`
	Assume      []string          `json:"assumptions"`
}

// Flush writes the stats to $VERIF_STATS (if set).
func (s *Stats) Flush() {
	path := os.Getenv("VERIF_STATS")
	if path == "" {
		return
	}
	s.mu.Lock()
	defer s.mu.Unlock()
	f := statsFile{Property: s.Property, Rule: s.Rule, Evals: s.Evals, NonTriv: s.NonTriv,
		Distinct: int64(len(s.distinct)), Classes: s.Classes, Excluded: s.Excluded,
		Samples: s.Samples, Assume: s.Assume}
	if len(s.distinct) <= 400000 {
		for h := range s.distinct {
			f.DistinctSet = append(f.DistinctSet, h)
		}
		sort.Slice(f.DistinctSet, func(i, j int) bool { return f.DistinctSet[i] < f.DistinctSet[j] })
	}
	b, _ := json.Marshal(f)
	_ = os.WriteFile(path, b, 0o644)
}

// ReplayFile is the on-disk form of a failing case.
type ReplayFile struct {
	Property string          `json:"property"`
	Clause   string          `json:"clause"`
	Error    string          `json:"error"`
	Case     json.RawMessage `json:"case"`
	// CaseGob is the byte-exact form (base64 of encoding/gob); JSON replaces
	// invalid UTF-8, which matters for hostile inputs. Preferred when present.
	CaseGob string `json:"case_gob,omitempty"`
}

// SaveReplay overwrites $VERIF_REPLAY_OUT with the failing case.
func SaveReplay(property string, c any, err error) {
	path := os.Getenv("VERIF_REPLAY_OUT")
	if path == "" {
		return
	}
	cb, _ := json.Marshal(c)
	// JSON is exact unless the case holds invalid UTF-8 (then gob is); gob in turn drops pointers to
	// zero values (an empty but present header), so it is only added when JSON does not round-trip.
	gobStr := ""
	back := reflect.New(reflect.TypeOf(c))
	if json.Unmarshal(cb, back.Interface()) != nil || !reflect.DeepEqual(back.Elem().Interface(), c) {
		var gb bytes.Buffer
		if err := gob.NewEncoder(&gb).Encode(c); err == nil {
			gobStr = base64.StdEncoding.EncodeToString(gb.Bytes())
		}
	}
	clause := "unknown"
	if v, ok := err.(*Violation); ok {
		clause = v.Clause
	}
	b, _ := json.MarshalIndent(ReplayFile{Property: property, Clause: clause, Error: strings.ToValidUTF8(err.Error(), "\uFFFD"), Case: cb, CaseGob: gobStr}, "", " ")
	_ = os.WriteFile(path, b, 0o644)
}

// LoadReplay reads the case of $VERIF_REPLAY into c; ok is false when the
// variable is not set.
func LoadReplay(c any) (ok bool, err error) {
	path := os.Getenv("VERIF_REPLAY")
	if path == "" {
		return false, nil
	}
	b, err := os.ReadFile(path)
	if err != nil {
		return true, err
	}
	var f ReplayFile
	if err := json.Unmarshal(b, &f); err != nil {
		return true, err
	}
	if f.CaseGob != "" {
		raw, err := base64.StdEncoding.DecodeString(f.CaseGob)
		if err != nil {
			return true, err
		}
		return true, gob.NewDecoder(bytes.NewReader(raw)).Decode(c)
	}
	return true, json.Unmarshal(f.Case, c)
}

// Excluded reports whether tok is listed in $VERIF_EXCLUDE (open known findings).
func Excluded(tok string) bool {
	for _, x := range strings.Split(os.Getenv("VERIF_EXCLUDE"), ",") {
		if x == tok {
			return true
		}
	}
	return false
}

// RunProp is the common entry point of every property test: with VERIF_REPLAY
// set it re-checks the saved case without any library; otherwise it lets rapid
// draw cases, saves every failing case (the last one written is the shrunk one)
// and flushes the statistics.
func RunProp[C any](t *testing.T, st *Stats, gen func(*rapid.T) C, check func(C, *Stats) error) {
	var c C
	if ok, err := LoadReplay(&c); ok {
		if err != nil {
			t.Fatalf("cannot load replay: %v", err)
		}
		if err := check(c, st); err != nil {
			fmt.Printf("REPLAY-VIOLATION %s %v\n", st.Property, err)
			t.Fatalf("replayed case violates %s: %v", st.Property, err)
		}
		fmt.Printf("REPLAY-OK %s\n", st.Property)
		return
	}
	defer st.Flush()
	rapid.Check(t, func(rt *rapid.T) {
		c := gen(rt)
		if err := check(c, st); err != nil {
			SaveReplay(st.Property, c, err)
			rt.Fatalf("%s violated: %v", st.Property, err)
		}
	})
}

// FuzzProp adapts the same generator and check to Go's native fuzzer.
func FuzzProp[C any](f *testing.F, st *Stats, gen func(*rapid.T) C, check func(C, *Stats) error) {
	f.Fuzz(rapid.MakeFuzz(func(rt *rapid.T) {
		c := gen(rt)
		if err := check(c, st); err != nil {
			SaveReplay(st.Property, c, err)
			rt.Fatalf("%s violated: %v", st.Property, err)
		}
	}))
}

// Up scales a generator bound: unchanged in the quick tier; in the thorough tier the
// odd-numbered shards explore structures twice as large (bigger pools, longer histories),
// the even-numbered ones keep the quick tier's sizes with more cases.
func Up(n int) int {
	if os.Getenv("VERIF_TIER") == "thorough" {
		if sh, err := strconv.Atoi(os.Getenv("VERIF_SHARD")); err == nil && sh%2 == 1 {
			return 2 * n
		}
	}
	return n
}
