// C19 — Prefix and Resource are pure shorthand for Router calls.
package c19

import (
	"encoding/json"
	"fmt"
	"sort"
	"strings"
	"testing"

	"github.com/issue9/mux/v9"
	"github.com/issue9/mux/v9/types"
	"pgregory.net/rapid"

	"verif/harness/life"
	"verif/harness/pat"
	"verif/harness/ref"
	"verif/harness/rig"
)

type Step struct {
	Kind    string            `json:"kind"` // mk handle remove clean url use
	Obj     int               `json:"obj"`  // object acted through / parent for mk; 0 = the router itself
	Res     bool              `json:"res,omitempty"`
	Text    string            `json:"text"` // prefix text (mk) or pattern suffix
	MWs     []int             `json:"mws,omitempty"`
	Methods []string          `json:"methods,omitempty"`
	Variant string            `json:"variant,omitempty"` // handle get post delete put patch any
	Strict  bool              `json:"strict,omitempty"`
	Params  map[string]string `json:"params,omitempty"`
}

type Case struct {
	Icpt    string   `json:"icpt"`
	Pool    []string `json:"pool"`
	Steps   []Step   `json:"steps"`
	Paths   []string `json:"paths"`
	Variant int      `json:"variant"`
}

type gobj struct {
	acc string
	res bool
}

func gen(t *rapid.T) Case {
	cfg := pat.GenCfg(t, true)
	c := Case{Icpt: cfg.IcptName, Variant: rapid.IntRange(0, 11).Draw(t, "variant")}
	c.Pool = pat.GenPool(t, cfg, rapid.IntRange(3, rig.Up(10)).Draw(t, "npool"))
	if len(c.Pool) > 26 {
		c.Pool = c.Pool[:26] // every step probes every live route on two routers: a structure of unusual size is kept in part
	}
	objs := []gobj{{}}
	var handled []string
	withPrefix := func(acc string) []string {
		var out []string
		for _, p := range c.Pool {
			if strings.HasPrefix(p, acc) {
				out = append(out, p)
			}
		}
		return out
	}
	mws := func() []int { return rapid.SliceOfN(rapid.IntRange(0, 5), 0, 2).Draw(t, "mws") }
	if rapid.IntRange(0, 2).Draw(t, "bulk") > 0 {
		// start from a populated table (plain Router calls on both sides), so that facade removals
		// and cleans act on wide nodes
		for _, p := range c.Pool {
			c.Steps = append(c.Steps, Step{Kind: "handle", Obj: 0, Text: p, Variant: "get"})
			handled = append(handled, p)
		}
	}
	for i, n := 0, rapid.IntRange(2, rig.Up(22)).Draw(t, "nsteps"); i < n; i++ {
		k := rapid.IntRange(0, 19).Draw(t, "kind")
		oi := rapid.IntRange(0, len(objs)-1).Draw(t, "obj")
		if rapid.IntRange(0, 2).Draw(t, "preferRecent") == 0 {
			oi = len(objs) - 1
		}
		o := objs[oi]
		cands := withPrefix(o.acc)
		suffix := func() string {
			if len(cands) > 0 && rapid.IntRange(0, 9).Draw(t, "fromPool") > 0 {
				return rapid.SampledFrom(cands).Draw(t, "target")[len(o.acc):]
			}
			return rapid.SampledFrom([]string{"", "/z", "/{q}", "z"}).Draw(t, "freeSuffix")
		}
		switch {
		case k < 5: // create a facade object
			if o.res {
				oi, o = 0, objs[0]
				cands = withPrefix("")
			}
			s := Step{Kind: "mk", Obj: oi, MWs: mws(), Res: rapid.IntRange(0, 3).Draw(t, "isRes") == 0}
			if len(cands) > 0 {
				tgt := rapid.SampledFrom(cands).Draw(t, "mkTarget")[len(o.acc):]
				if s.Res {
					s.Text = tgt
				} else {
					s.Text = tgt[:rapid.IntRange(0, len(tgt)).Draw(t, "mkCut")]
					if rapid.IntRange(0, 2).Draw(t, "mkWhole") == 0 {
						s.Text = tgt // a prefix that is a whole pattern: its Clean removes that route and its extensions only
					}
				}
			} else {
				s.Text = rapid.SampledFrom([]string{"", "/z"}).Draw(t, "mkFree")
			}
			if rapid.IntRange(0, 9).Draw(t, "mkFaulty") == 0 {
				// a facade over text no route can be built from: creating it is not a Router call, so nothing may happen
				// until a call goes through it, and that call behaves like the Router call on the concatenated text
				s.Text = rapid.SampledFrom([]string{"/{}", "/{id}/{id}", "/{", "}", "/{x:[}", "/{-}", "/{:d}", "{x}{y}", ""}).Draw(t, "mkFaultyText")
			}
			c.Steps = append(c.Steps, s)
			objs = append(objs, gobj{acc: o.acc + s.Text, res: s.Res})
		case k < 12:
			s := Step{Kind: "handle", Obj: oi, MWs: mws(), Variant: rapid.SampledFrom([]string{"handle", "handle", "get", "post", "delete", "put", "patch", "any"}).Draw(t, "variantM")}
			if !o.res {
				s.Text = suffix()
			}
			if s.Variant == "handle" {
				s.Methods = rapid.SampledFrom([][]string{{"GET"}, {"POST", "PUT"}, nil, {"DELETE"}, {"GET", "HEAD"}, {"BOGUS"}, {"TRACE"}, {"GET", "TRACE"}}).Draw(t, "hmethods") // no TRACE handler here: TRACE is an ordinary method
			}
			handled = append(handled, o.acc+s.Text)
			c.Steps = append(c.Steps, s)
		case k < 14:
			s := Step{Kind: "remove", Obj: oi}
			if !o.res {
				s.Text = suffix()
				var mine []string
				for _, h := range handled {
					if strings.HasPrefix(h, o.acc) {
						mine = append(mine, h)
					}
				}
				if len(mine) > 0 && rapid.IntRange(0, 3).Draw(t, "rmHandled") > 0 {
					s.Text = rapid.SampledFrom(mine).Draw(t, "rmTarget")[len(o.acc):]
				}
			}
			if rapid.Bool().Draw(t, "rmWithMethods") {
				s.Methods = rapid.SampledFrom([][]string{{"GET"}, {"POST"}, {"GET", "POST"}, {"HEAD"}, {"DELETE", "BOGUS"}, {"TRACE"}}).Draw(t, "rmethods")
			}
			c.Steps = append(c.Steps, s)
		case k < 16:
			c.Steps = append(c.Steps, Step{Kind: "clean", Obj: oi})
		case k < 18:
			s := Step{Kind: "url", Obj: oi, Strict: rapid.Bool().Draw(t, "strict"), Params: map[string]string{}}
			if !o.res {
				s.Text = suffix()
			}
			for _, nme := range []string{"x", "x2", "id", "idx", "y", "n", "q"} {
				if rapid.IntRange(0, 4).Draw(t, "hasParam") > 0 {
					s.Params[nme] = rapid.SampledFrom([]string{"7", "x", "78", "a/b", "", "{x}", "{id}", "{y}7", "%s", "}{"}).Draw(t, "pval") // incl. values that look like tokens
				}
			}
			if len(s.Params) >= 2 && rapid.IntRange(0, 2).Draw(t, "tokenValue") == 0 {
				// the value of one parameter is the token of another one: substituted once, never again
				var ks []string
				for k := range s.Params {
					ks = append(ks, k)
				}
				sort.Strings(ks)
				var own []string // the names the pattern itself uses, when it has two or more
				for _, k := range ks {
					if strings.Contains(o.acc+s.Text, "{"+k+"}") || strings.Contains(o.acc+s.Text, "{"+k+":") {
						own = append(own, k)
					}
				}
				if len(own) >= 2 {
					ks = own
				}
				two := rapid.Permutation(ks).Draw(t, "tokenKeys")
				s.Params[two[0]] = "{" + two[1] + "}"
			}
			c.Steps = append(c.Steps, s)
		default:
			c.Steps = append(c.Steps, Step{Kind: "use", MWs: rapid.SliceOfN(rapid.IntRange(0, 5), 1, 2).Draw(t, "useMws")})
		}
	}
	if rapid.IntRange(0, 5).Draw(t, "plainResource") == 0 {
		// a Resource over a pattern of plain parameters only, and URLs built through it whose values are tokens of
		// the other parameter: each parameter is substituted once, whatever order the map is walked in
		c.Steps = append(c.Steps, Step{Kind: "mk", Obj: 0, Res: true, Text: rapid.SampledFrom([]string{"/tpl/{x}/{id}", "/t/{x}-{id}/{y}", "tpl/{id}{x}"}).Draw(t, "plainText")})
		ri := len(objs)
		objs = append(objs, gobj{acc: c.Steps[len(c.Steps)-1].Text, res: true})
		if rapid.Bool().Draw(t, "plainLive") {
			c.Steps = append(c.Steps, Step{Kind: "handle", Obj: ri, Variant: "get"})
		}
		for i, n := 0, rapid.IntRange(1, 3).Draw(t, "plainURLs"); i < n; i++ {
			ps := map[string]string{"x": "7", "id": "8", "y": "9"}
			two := rapid.Permutation([]string{"x", "id", "y"}).Draw(t, "plainKeys")
			ps[two[0]] = "{" + two[1] + "}"
			c.Steps = append(c.Steps, Step{Kind: "url", Obj: ri, Strict: rapid.IntRange(0, 3).Draw(t, "plainStrict") == 0, Params: ps})
		}
	}
	var parsed []*pat.Pattern
	for _, p := range c.Pool {
		parsed = append(parsed, pat.MustParse(p, cfg.Icpt))
	}
	for i, n := 0, rapid.IntRange(0, 4).Draw(t, "npaths"); i < n; i++ {
		c.Paths = append(c.Paths, pat.GenPath(t, parsed))
	}
	return c
}

type obj struct {
	acc      string
	res      bool
	lists    [][]types.Middleware[*rig.H] // per-call argument lists, outermost call first
	prefix   *mux.Prefix[*rig.H]
	resource *mux.Resource[*rig.H]
}

type ob struct {
	M, Path, Kind, ID, Pattern, Allow string
	Status                            int
	Params                            map[string]string
	Trace                             []string
	Panic                             string
}

func probe(r *rig.Router, m, path string) ob {
	o := rig.Serve(r, rig.Req{Method: m, Path: path})
	x := ob{M: m, Path: path, Kind: o.BaseKind, Pattern: o.Pattern, Allow: o.Header.Get("Allow"), Status: o.EffStatus(), Params: o.Params, Trace: o.Trace}
	if o.BaseKind == "route" {
		x.ID = o.BaseID
	}
	if o.Panicked {
		x.Panic = fmt.Sprint(o.PanicVal)
	}
	return x
}

func js(v any) string {
	b, _ := json.Marshal(v)
	return string(b)
}

func check(c Case, st *rig.Stats) error {
	env := rig.NewEnv()
	ic := pat.IcptSets[c.Icpt]
	fac := env.NewRouter("r", rig.Opts{Icpt: ic}) // driven through the facades
	des := env.NewRouter("r", rig.Opts{Icpt: ic}) // driven by the desugared program
	model := ref.NewTable(false)
	mwObjs := map[int]types.Middleware[*rig.H]{}
	mk := func(ids []int) []types.Middleware[*rig.H] {
		ms := make([]types.Middleware[*rig.H], 0, len(ids)+3) // spare capacity, like a slice the caller keeps appending to
		for _, i := range ids {
			if mwObjs[i] == nil {
				mwObjs[i] = env.NewMW(fmt.Sprintf("m%d", i))
			}
			ms = append(ms, mwObjs[i])
		}
		return ms
	}
	objs := []*obj{{}}
	nontriv := false
	var classes []string
	registrations := 0
	cleaned := false // a Prefix.Clean happened: its translation prunes differently
	outsideEver := false
	for si, s := range c.Steps {
		if outsideEver {
			// the router has accepted a pattern outside the grammar the properties are stated for (a brace inside a parameter
			// name, reachable here through facades over text no route can be built from): what Remove, Clean and a second
			// registration do with such a pattern is not specified anywhere, and the translation of Prefix.Clean relies on
			// Remove - nothing after this point is judged
			classes = append(classes, "abandoned-after-a-pattern-outside-the-grammar-was-accepted")
			break
		}
		when := fmt.Sprintf("after step %d %+v (program %+v)", si, s, c.Steps[:si+1])
		o := objs[s.Obj]
		var fp, dp any // recovered values
		var fpan, dpan bool
		switch s.Kind {
		case "mk":
			if o.res {
				o = objs[0]
			}
			ms := mk(s.MWs)
			n := &obj{acc: o.acc + s.Text, res: s.Res, lists: append(append([][]types.Middleware[*rig.H]{}, o.lists...), ms)}
			if v, panicked := rig.Try(func() {
				switch {
				case s.Res && o.prefix == nil:
					n.resource = fac.Resource(s.Text, ms...)
				case s.Res:
					n.resource = o.prefix.Resource(s.Text, ms...)
				case o.prefix == nil:
					n.prefix = fac.Prefix(s.Text, ms...)
				default:
					n.prefix = o.prefix.Prefix(s.Text, ms...)
				}
			}); panicked {
				return rig.Violf("facade-creation-panicked", "%s: creating the facade object panicked: %v (it stands for no Router call)", when, v)
			}
			if _, err := pat.Parse(n.acc, ic); err != nil && (s.Res || strings.Count(n.acc, "{") != strings.Count(n.acc, "}")+1) {
				classes = append(classes, "facade-over-malformed-text")
			}
			n.lists[len(n.lists)-1] = append([]types.Middleware[*rig.H]{}, ms...)
			for i := range ms {
				ms[i] = env.NewMW("poison") // the caller reuses its slice: a facade must have copied it
			}
			_ = append(ms, env.NewMW("poison"), env.NewMW("poison"), env.NewMW("poison")) // ... and its spare capacity
			objs = append(objs, n)
			if len(n.lists) >= 2 {
				nontriv = true
				classes = append(classes, "nesting-depth>=2")
			}
			if pp, err := pat.Parse(n.acc, ic); err != nil && n.acc != "" && !s.Res {
				_ = pp
				classes = append(classes, "prefix-ends-inside-a-token-or-is-partial")
			}
			continue
		case "use":
			ms := mk(s.MWs)
			fac.Use(ms...)
			des.Use(ms...)
		case "handle":
			pattern := o.acc + s.Text
			if o.res {
				pattern = o.acc
			}
			ms := mk(s.MWs)
			h := env.NewH()
			methods := s.Methods
			switch s.Variant {
			case "get":
				methods = []string{"GET"}
			case "post":
				methods = []string{"POST"}
			case "delete":
				methods = []string{"DELETE"}
			case "put":
				methods = []string{"PUT"}
			case "patch":
				methods = []string{"PATCH"}
			case "any":
				methods = nil
			}
			var retP *mux.Prefix[*rig.H]
			var retR *mux.Resource[*rig.H]
			var retRouter *mux.Router[*rig.H]
			fp, fpan = rig.Try(func() {
				switch {
				case o.resource != nil:
					switch s.Variant {
					case "get":
						retR = o.resource.Get(h, ms...)
					case "post":
						retR = o.resource.Post(h, ms...)
					case "delete":
						retR = o.resource.Delete(h, ms...)
					case "put":
						retR = o.resource.Put(h, ms...)
					case "patch":
						retR = o.resource.Patch(h, ms...)
					case "any":
						retR = o.resource.Any(h, ms...)
					default:
						retR = o.resource.Handle(h, ms, s.Methods...)
					}
				case o.prefix != nil:
					switch s.Variant {
					case "get":
						retP = o.prefix.Get(s.Text, h, ms...)
					case "post":
						retP = o.prefix.Post(s.Text, h, ms...)
					case "delete":
						retP = o.prefix.Delete(s.Text, h, ms...)
					case "put":
						retP = o.prefix.Put(s.Text, h, ms...)
					case "patch":
						retP = o.prefix.Patch(s.Text, h, ms...)
					case "any":
						retP = o.prefix.Any(s.Text, h, ms...)
					default:
						retP = o.prefix.Handle(s.Text, h, ms, s.Methods...)
					}
				default:
					switch s.Variant {
					case "get":
						retRouter = fac.Get(pattern, h, ms...)
					case "post":
						retRouter = fac.Post(pattern, h, ms...)
					case "delete":
						retRouter = fac.Delete(pattern, h, ms...)
					case "put":
						retRouter = fac.Put(pattern, h, ms...)
					case "patch":
						retRouter = fac.Patch(pattern, h, ms...)
					case "any":
						retRouter = fac.Any(pattern, h, ms...)
					default:
						retRouter = fac.Handle(pattern, h, ms, s.Methods...)
					}
				}
			})
			// the registering calls return "the" object for chaining: the program goes on with what was returned
			if !fpan {
				switch {
				case o.resource != nil:
					if retR == nil || retR.Pattern() != o.acc || retR.Router() != fac.Router {
						return rig.Violf("facade-chain", "%s: the Resource call returned %v (pattern / router differ from the object it was called on, %q)", when, retR, o.acc)
					}
					o.resource = retR
				case o.prefix != nil:
					if retP == nil || retP.Pattern() != o.acc || retP.Router() != fac.Router {
						return rig.Violf("facade-chain", "%s: the Prefix call returned %v (pattern / router differ from the object it was called on, %q)", when, retP, o.acc)
					}
					o.prefix = retP
				default:
					if retRouter != fac.Router {
						return rig.Violf("facade-chain", "%s: the Router call returned another router", when)
					}
				}
			}
			// desugared: one Handle with the concatenated pattern and the concatenated lists
			// (registration arguments innermost, then the prefix calls from the innermost outwards)
			all := append([]types.Middleware[*rig.H]{}, ms...)
			for i := len(o.lists) - 1; i >= 0; i-- {
				all = append(all, o.lists[i]...)
			}
			dp, dpan = rig.Try(func() { des.Handle(pattern, h, all, methods...) })
			if !dpan {
				model.Handle(pattern, h.ID, methods)
				registrations++
				if _, err := pat.Parse(pattern, ic); err != nil {
					// accepted by the router, but outside the pattern grammar the properties are stated for (a brace
					// inside a parameter name, e.g. "{/{-}"): from here on the table model is not consulted for Routes(),
					// the two routers are still compared with each other
					outsideEver = true
				}
			}
		case "remove":
			pattern := o.acc + s.Text
			if o.res {
				pattern = o.acc
			}
			fp, fpan = rig.Try(func() {
				switch {
				case o.resource != nil:
					o.resource.Remove(s.Methods...)
				case o.prefix != nil:
					o.prefix.Remove(s.Text, s.Methods...)
				default:
					fac.Remove(pattern, s.Methods...)
				}
			})
			dp, dpan = rig.Try(func() { des.Remove(pattern, s.Methods...) })
			before := len(model.R)
			model.Remove(pattern, s.Methods...)
			if (o.resource != nil || o.prefix != nil) && registrations >= 3 && len(model.R) != before {
				nontriv = true
				classes = append(classes, "remove-through-facade-after>=3-registrations")
			}
		case "clean":
			switch {
			case o.resource != nil:
				fp, fpan = rig.Try(func() { o.resource.Clean() })
				dp, dpan = rig.Try(func() { des.Remove(o.acc) })
				model.Remove(o.acc)
				classes = append(classes, "Resource.Clean")
			case o.prefix != nil:
				fp, fpan = rig.Try(func() { o.prefix.Clean() })
				dp, dpan = rig.Try(func() {
					for _, p := range model.Live() {
						if strings.HasPrefix(p, o.acc) {
							des.Remove(p)
						}
					}
				})
				model.CleanPrefix(o.acc)
				cleaned = true
				classes = append(classes, "Prefix.Clean")
			default:
				fp, fpan = rig.Try(func() { fac.Clean() })
				dp, dpan = rig.Try(func() { des.Clean() })
				model.Clean()
			}
			if registrations >= 3 {
				nontriv = true
			}
		case "url":
			pattern := o.acc + s.Text
			if o.res {
				pattern = o.acc
			}
			var fu, du string
			var fe, de error
			fp, fpan = rig.Try(func() {
				switch {
				case o.resource != nil:
					fu, fe = o.resource.URL(s.Strict, s.Params)
				case o.prefix != nil:
					fu, fe = o.prefix.URL(s.Strict, s.Text, s.Params)
				default:
					fu, fe = fac.URL(s.Strict, pattern, s.Params)
				}
			})
			dp, dpan = rig.Try(func() { du, de = des.URL(s.Strict, pattern, s.Params) })
			if fu != du || (fe == nil) != (de == nil) {
				return rig.Violf("url-differs", "%s: facade URL = %q, %v; Router.URL(%v, %q, %v) = %q, %v", when, fu, fe, s.Strict, pattern, s.Params, du, de)
			}
			classes = append(classes, "url-compared")
		}
		if fpan != dpan {
			return rig.Violf("panic-parity", "%s: facade call panicked=%v (%v), desugared call panicked=%v (%v)", when, fpan, fp, dpan, dp)
		}
		// Routes()
		fr, dr := fac.Routes(), des.Routes()
		want := model.Render()
		if outsideEver {
			classes = append(classes, "pattern-outside-grammar(Routes-compared-between-routers-only)")
			want = dr
		}
		for _, rr := range []map[string][]string{fr, dr} {
			if len(rr) != len(want) {
				return rig.Violf("routes", "%s: facade router Routes()=%v, desugared router Routes()=%v, model %v", when, fr, dr, want)
			}
			for p, ms := range want {
				if !rig.EqualSets(rr[p], ms) {
					return rig.Violf("routes", "%s: facade router Routes()=%v, desugared router Routes()=%v, model %v", when, fr, dr, want)
				}
			}
		}
		// dispatch, parameters, middleware order, Allow
		var live []*pat.Pattern
		outside := false // the table holds a pattern the harness' parser does not understand (e.g. "/{x}/{/{q}")
		for _, p := range model.Live() {
			if pp, err := pat.Parse(p, ic); err == nil {
				live = append(live, pp)
			} else {
				outside = true
			}
		}
		if cleaned && outside {
			// whether a witness is ambiguous cannot be decided against such a pattern, and after a
			// Prefix.Clean only unambiguous witnesses are comparable: nothing to compare at this step
			classes = append(classes, "pattern-outside-grammar-after-Prefix.Clean(dispatch-not-compared)")
			continue
		}
		for _, p := range live {
			w, _, ok := p.Witness(c.Variant)
			if !ok {
				continue
			}
			if cleaned {
				amb := false
				for _, q := range live {
					if q != p && q.Matches(w) {
						amb = true
					}
				}
				if amb {
					classes = append(classes, "ambiguous-witness-after-Prefix.Clean(skipped)")
					continue
				}
			}
			for _, m := range life.ProbeMethods {
				a, b := probe(fac, m, w), probe(des, m, w)
				if js(a) != js(b) {
					return rig.Violf("dispatch-differs", "%s: %s %q: facade router %s, desugared router %s", when, m, w, js(a), js(b))
				}
			}
		}
		for _, q := range [][2]string{{"OPTIONS", "*"}, {"GET", "*"}, {"OPTIONS", ""}} {
			a, b := probe(fac, q[0], q[1]), probe(des, q[0], q[1])
			if js(a) != js(b) {
				return rig.Violf("dispatch-differs", "%s: %s %q: facade router %s, desugared router %s", when, q[0], q[1], js(a), js(b))
			}
		}
		if !cleaned {
			for _, path := range c.Paths {
				for _, m := range []string{"GET", "OPTIONS", "POST"} {
					a, b := probe(fac, m, path), probe(des, m, path)
					if js(a) != js(b) {
						return rig.Violf("dispatch-differs", "%s: %s %q: facade router %s, desugared router %s", when, m, path, js(a), js(b))
					}
				}
			}
		}
	}
	st.Eval(c, nontriv, classes...)
	return nil
}

var stats = rig.NewStats("C19",
	"(method lists include TRACE, an ordinary method on these routers) rapid draws a facade program of 2-22 steps over a witness-safe pool: creation of Prefix / nested Prefix / Resource / Prefix.Resource objects whose texts are pieces of pool patterns cut at arbitrary byte positions (empty prefixes, prefixes ending inside a token) with 0-2 middlewares, Handle / Get / Post / Delete / Put / Patch / Any through any object (also with rejected method lists), Remove, Clean, URL (strict or not) and Router.Use. Each step is also run in translated form on a second router with the same name, the same handler and the same middleware objects: Router.Handle / Remove / URL on the concatenated pattern and the concatenated middleware list; Prefix.Clean as Remove of every model pattern with that prefix. After every step both routers must agree on panic / no panic, Routes() (also equal to the table model), URL results and, for every live witness x ten methods and generated ambiguous paths, on handler id, route, params, status, Allow and the middleware names that ran. After the first Prefix.Clean only unambiguous witnesses are compared exactly (its translation prunes nodes differently, which may reorder same-kind siblings). Non-trivial: nesting depth >= 2, or a Remove/Clean through a facade after >= 3 registrations; distinct by hash of the case. Later additions to the generated domain: One facade in ten is created over text no route can be built from (creation must not panic; calls through it behave like the Router call on the concatenated text); the program follows the chained return values and checks Pattern() / Router(); once the router has accepted a pattern outside the grammar (a brace inside a parameter name) Routes() is compared between the two routers only. URL parameter values include token-like text ({x}, {id}, %s).",
	"Prefix.Clean has no Router-level counterpart; its translation is Remove of every live pattern with that string prefix")

func TestProp(t *testing.T) { rig.RunProp(t, stats, gen, check) }

func FuzzProp(f *testing.F) { rig.FuzzProp(f, stats, gen, check) }
