// C20 — Params accessors agree with each other and with strconv.
package c20

import (
	"fmt"
	"math"
	"net/http"
	"strconv"
	"strings"
	"testing"

	"github.com/issue9/mux/v9"
	"github.com/issue9/mux/v9/types"
	"pgregory.net/rapid"

	"verif/harness/rig"
)

type Op struct {
	Kind string `json:"kind"` // set delete reset renew serve rangeDelete
	Slot int    `json:"slot"`
	K    string `json:"k,omitempty"`
	V    string `json:"v,omitempty"`
	Many int    `json:"many,omitempty"` // set: additionally set this many filler keys
	// Stale (renew): Set(K, V) through the destroyed reference before the new context is taken
	Stale bool `json:"stale,omitempty"`
}

type Case struct {
	Ops   []Op     `json:"ops"`
	Probe []string `json:"probe"` // extra keys to probe (mostly absent)
	DefI  int64    `json:"def_i"`
	DefU  uint64   `json:"def_u"`
	DefF  float64  `json:"def_f"`
	DefS  string   `json:"def_s"`
}

var edgeValues = []string{"", "0", "1", "+1", "-0", "-1", "9223372036854775807", "9223372036854775808",
	"-9223372036854775808", "-9223372036854775809", "18446744073709551615", "18446744073709551616",
	"1e400", "-1e400", "NaN", "nan", "Inf", "-inf", "0x10", "0b1", "1_000", "t", "T", "TRUE", "true", "True", "f", "false",
	" 1", "1 ", "1.5", ".5", "1e3", "١", "１", "1e-400", "0.1", "-", "+",
	// every spelling strconv knows for the special floats, and hex floats
	"Infinity", "infinity", "INFINITY", "+Infinity", "-Infinity", "iNf", "+inf", "infinit", "0x1p-2", "0X1.8P1", "1_0", "0x_1p0"}

var keyPool = []string{"", "a", "b", "id", "x", "-x", "k1", "k2", "k3"}

func genStr(t *rapid.T, label string, pool []string) string {
	if label == "val" && rapid.IntRange(0, 7).Draw(t, label+"Padded") == 0 {
		// numbers written the long way: a sign, a run of zeros of a drawn length (around and beyond the width of the
		// widest canonical 64-bit number) and a short body - still what strconv accepts, or just not
		return rapid.SampledFrom([]string{"", "", "-", "+"}).Draw(t, label+"Sign") +
			strings.Repeat("0", rapid.SampledFrom([]int{0, 1, 2, 5, 17, 18, 19, 20, 21, 22, 40, 300}).Draw(t, label+"Zeros")) +
			rapid.SampledFrom([]string{"", "0", "7", "42", "17", "9223372036854775807", "18446744073709551615", "1.5", "1e3", ".5", "x"}).Draw(t, label+"Body")
	}
	if rapid.IntRange(0, 9).Draw(t, label+"Mode") < 7 {
		return rapid.SampledFrom(pool).Draw(t, label)
	}
	return rapid.String().Draw(t, label+"Any")
}

var serveKinds = []string{"router-hit", "router-404", "router-405", "router-panic-recovered", "group-hit", "group-miss", "group-miss-panic-recovered", "nested"}

// traffic builds a router and a group that use the context pool the way applications do.
type traffic struct {
	r *rig.Router
	g *rig.Group
}

func newTraffic() *traffic {
	env := rig.NewEnv()
	rec := mux.WithRecovery(func(w http.ResponseWriter, _ any) { w.WriteHeader(500) })
	r := env.NewRouter("r", rig.Opts{Extra: []mux.Option{rec}})
	r.Handle("/a/{id}", env.NewH(), nil, "GET")
	g := env.NewGroup(rec)
	gr := g.New("gr", mux.NewPathVersion("pv", "v1"))
	gr.Handle("/a/{id}/{rest}", env.NewH(), nil, "GET")
	return &traffic{r: r, g: g}
}

func (tr *traffic) run(kind string) {
	switch kind {
	case "router-hit":
		rig.Serve(tr.r, rig.Req{Method: "GET", Path: "/a/1"})
	case "router-404":
		rig.Serve(tr.r, rig.Req{Method: "GET", Path: "/zz"})
	case "router-405":
		rig.Serve(tr.r, rig.Req{Method: "PUT", Path: "/a/1"})
	case "router-panic-recovered":
		rig.Serve(tr.r, rig.Req{Method: "GET", Path: "/a/1", PanicAt: "base", PanicWith: "boom"})
	case "group-hit":
		rig.Serve(tr.g, rig.Req{Method: "GET", Path: "/v1/a/1/2"})
	case "group-miss":
		rig.Serve(tr.g, rig.Req{Method: "GET", Path: "/v9/a"})
	case "group-miss-panic-recovered":
		rig.Serve(tr.g, rig.Req{Method: "GET", Path: "/v9/a", PanicAt: "base", PanicWith: "boom"})
	case "nested":
		rig.Serve(tr.g, rig.Req{Method: "GET", Path: "/v1/a/1/2", Sub: &rig.Req{Method: "GET", Path: "/a/7"}, SubHandler: tr.r})
	}
}

func gen(t *rapid.T) Case {
	var c Case
	n := rapid.IntRange(1, rig.Up(25)).Draw(t, "nops")
	for i := 0; i < n; i++ {
		op := Op{Slot: rapid.IntRange(0, 1).Draw(t, "slot")}
		switch k := rapid.IntRange(0, 19).Draw(t, "kind"); {
		case k < 11:
			op.Kind = "set"
			op.K = genStr(t, "key", keyPool)
			op.V = genStr(t, "val", edgeValues)
			if rapid.IntRange(0, 14).Draw(t, "many") == 0 {
				op.Many = rapid.IntRange(25, 40).Draw(t, "manyN")
			}
		case k < 14:
			op.Kind = "delete"
			op.K = genStr(t, "key", keyPool)
		case k < 15:
			op.Kind = "rangeDelete" // a Range whose callback deletes another key, as a map allows
			op.K = genStr(t, "key", keyPool)
		case k < 16:
			op.Kind = "reset"
		case k < 18:
			op.Kind = "renew"
			if rapid.IntRange(0, 3).Draw(t, "stale") == 0 {
				// a write through the reference that was just destroyed, before anybody takes a context from the pool
				op.Stale = true
				op.K = genStr(t, "key", keyPool)
				op.V = genStr(t, "val", edgeValues)
			}
		default:
			// traffic through the library's own users of the pool between two accessor steps
			op.Kind = "serve"
			op.K = rapid.SampledFrom(serveKinds).Draw(t, "serveKind")
		}
		c.Ops = append(c.Ops, op)
	}
	c.Probe = rapid.SliceOfN(rapid.Custom(func(t *rapid.T) string { return genStr(t, "probe", keyPool) }), 0, 3).Draw(t, "probes")
	c.DefI = rapid.Int64().Draw(t, "defI")
	c.DefU = rapid.Uint64().Draw(t, "defU")
	c.DefF = rapid.Float64().Draw(t, "defF")
	c.DefS = rapid.String().Draw(t, "defS")
	return c
}

func errEq(a, b error) bool {
	if a == nil || b == nil {
		return a == nil && b == nil
	}
	return a.Error() == b.Error()
}

func verify(ctx *types.Context, model map[string]string, c Case, when string, ever ...string) error {
	var ps types.Params = ctx.Params()
	if ps.Count() != len(model) {
		return rig.Violf("count", "%s: Count()=%d, model has %d", when, ps.Count(), len(model))
	}
	seen := map[string]string{}
	visits := 0
	ps.Range(func(k, v string) { seen[k] = v; visits++ })
	if visits != len(model) || !rig.EqualParams(seen, model) {
		return rig.Violf("range", "%s: Range visited %v (%d visits), model %v", when, seen, visits, model)
	}
	keys := append([]string{}, c.Probe...)
	keys = append(keys, ever...) // keys this context held earlier (and may have read): absent means absent
	for k := range model {
		keys = append(keys, k)
	}
	for _, k := range keys {
		want, present := model[k]
		got, found := ps.Get(k)
		if found != present || got != want {
			return rig.Violf("get", "%s: Get(%q)=%q,%v want %q,%v", when, k, got, found, want, present)
		}
		if ps.Exists(k) != present {
			return rig.Violf("exists", "%s: Exists(%q)=%v want %v", when, k, ps.Exists(k), present)
		}
		s, err := ps.String(k)
		if present && (err != nil || s != want) || !present && (err != types.ErrParamNotExists() || s != "") {
			return rig.Violf("string", "%s: String(%q)=%q,%v", when, k, s, err)
		}
		if ms := ps.MustString(k, c.DefS); present && ms != want || !present && ms != c.DefS {
			return rig.Violf("muststring", "%s: MustString(%q)=%q", when, k, ms)
		}
		// Int
		{
			v, err := ps.Int(k)
			if present {
				w, werr := strconv.ParseInt(want, 10, 64)
				if v != w || !errEq(err, werr) {
					return rig.Violf("int", "%s: Int(%q) on %q = %d,%v; strconv says %d,%v", when, k, want, v, err, w, werr)
				}
			} else if err != types.ErrParamNotExists() || v != 0 {
				return rig.Violf("int-absent", "%s: Int(%q) absent = %d,%v", when, k, v, err)
			}
			for _, d := range []int64{c.DefI, c.DefI + 1} {
				m := ps.MustInt(k, d)
				if err != nil && m != d || err == nil && m != v {
					return rig.Violf("mustint", "%s: MustInt(%q,%d) on %q,%v = %d; strict gave %d,%v", when, k, d, want, present, m, v, err)
				}
			}
		}
		// Uint
		{
			v, err := ps.Uint(k)
			if present {
				w, werr := strconv.ParseUint(want, 10, 64)
				if v != w || !errEq(err, werr) {
					return rig.Violf("uint", "%s: Uint(%q) on %q = %d,%v; strconv says %d,%v", when, k, want, v, err, w, werr)
				}
			} else if err != types.ErrParamNotExists() || v != 0 {
				return rig.Violf("uint-absent", "%s: Uint(%q) absent = %d,%v", when, k, v, err)
			}
			for _, d := range []uint64{c.DefU, c.DefU + 1} {
				m := ps.MustUint(k, d)
				if err != nil && m != d || err == nil && m != v {
					return rig.Violf("mustuint", "%s: MustUint(%q,%d) on %q,%v = %d; strict gave %d,%v", when, k, d, want, present, m, v, err)
				}
			}
		}
		// Bool
		{
			v, err := ps.Bool(k)
			if present {
				w, werr := strconv.ParseBool(want)
				if v != w || !errEq(err, werr) {
					return rig.Violf("bool", "%s: Bool(%q) on %q = %v,%v; strconv says %v,%v", when, k, want, v, err, w, werr)
				}
			} else if err != types.ErrParamNotExists() || v {
				return rig.Violf("bool-absent", "%s: Bool(%q) absent = %v,%v", when, k, v, err)
			}
			for _, d := range []bool{false, true} {
				m := ps.MustBool(k, d)
				if err != nil && m != d || err == nil && m != v {
					return rig.Violf("mustbool", "%s: MustBool(%q,%v) on %q,%v = %v; strict gave %v,%v", when, k, d, want, present, m, v, err)
				}
			}
		}
		// Float
		{
			v, err := ps.Float(k)
			if present {
				w, werr := strconv.ParseFloat(want, 64)
				if math.Float64bits(v) != math.Float64bits(w) || !errEq(err, werr) {
					return rig.Violf("float", "%s: Float(%q) on %q = %v,%v; strconv says %v,%v", when, k, want, v, err, w, werr)
				}
			} else if err != types.ErrParamNotExists() || v != 0 {
				return rig.Violf("float-absent", "%s: Float(%q) absent = %v,%v", when, k, v, err)
			}
			d2 := c.DefF + 1
			if math.Float64bits(d2) == math.Float64bits(c.DefF) {
				d2 = 0.25
			}
			for _, d := range []float64{c.DefF, d2} {
				m := ps.MustFloat(k, d)
				if err != nil && math.Float64bits(m) != math.Float64bits(d) || err == nil && math.Float64bits(m) != math.Float64bits(v) {
					return rig.Violf("mustfloat", "%s: MustFloat(%q,%v) on %q,%v = %v; strict gave %v,%v", when, k, d, want, present, m, v, err)
				}
			}
		}
	}
	return nil
}

func has(m map[string]string, k string) bool { _, ok := m[k]; return ok }

func mixed(v string) bool {
	ok, bad := 0, 0
	count := func(err error) {
		if err == nil {
			ok++
		} else {
			bad++
		}
	}
	_, e := strconv.ParseInt(v, 10, 64)
	count(e)
	_, e = strconv.ParseUint(v, 10, 64)
	count(e)
	_, e = strconv.ParseBool(v)
	count(e)
	_, e = strconv.ParseFloat(v, 64)
	count(e)
	return ok > 0 && bad > 0
}

func check(c Case, st *rig.Stats) error {
	var ctxs [2]*types.Context
	var models [2]map[string]string
	for i := range ctxs {
		ctxs[i] = types.NewContext()
		models[i] = map[string]string{}
	}
	if ctxs[0] == ctxs[1] {
		return rig.Violf("pool-alias", "two live contexts are the same object")
	}
	nontriv := false
	var classes []string
	var tr *traffic
	var ever [2][]string
	remember := func(slot int, k string) {
		if len(ever[slot]) < 40 {
			ever[slot] = append(ever[slot], k)
		}
	}
	for i := range ctxs {
		if err := verify(ctxs[i], models[i], c, fmt.Sprintf("fresh slot %d", i)); err != nil {
			return err
		}
	}
	for i, op := range c.Ops {
		ctx, model := ctxs[op.Slot], models[op.Slot]
		switch op.Kind {
		case "set":
			ctx.Set(op.K, op.V)
			model[op.K] = op.V
			remember(op.Slot, op.K)
			for j := 0; j < op.Many; j++ {
				k := fmt.Sprintf("fill%d", j)
				ctx.Set(k, strconv.Itoa(j))
				model[k] = strconv.Itoa(j)
			}
			if mixed(op.V) {
				nontriv = true
			}
			if op.Many > 0 {
				classes = append(classes, "over-30-keys")
			}
		case "delete":
			ctx.Delete(op.K)
			delete(model, op.K)
		case "rangeDelete":
			var bad string
			ctx.Range(func(k, v string) {
				// whatever Range yields must be in the context at that moment
				if got, ok := ctx.Get(k); (!ok || got != v) && bad == "" {
					bad = fmt.Sprintf("Range yielded %q=%q but Get says %q,%v", k, v, got, ok)
				}
				if k != op.K {
					ctx.Delete(op.K)
				}
			})
			if bad != "" {
				return rig.Violf("range-while-deleting", "step %d: %s", i, bad)
			}
			others := len(model)
			if has(model, op.K) {
				others--
			}
			if others > 0 { // the callback ran on some other key and deleted op.K
				delete(model, op.K)
			}
			classes = append(classes, "range-while-deleting")
		case "reset":
			ctx.Reset()
			clear(model)
		case "renew":
			if len(model) > 0 {
				nontriv = true
				classes = append(classes, "renew-nonempty")
			}
			ctx.Destroy()
			if op.Stale {
				ctx.Set(op.K, op.V)
				classes = append(classes, "write-after-destroy-then-renew")
			}
			ctxs[op.Slot] = types.NewContext()
			models[op.Slot] = map[string]string{}
			if ctxs[0] == ctxs[1] {
				return rig.Violf("pool-alias", "step %d: two live contexts are the same object", i)
			}
		case "serve":
			if tr == nil {
				tr = newTraffic()
			}
			tr.run(op.K)
			classes = append(classes, "traffic:"+op.K)
			// whatever the library did with the pool, two contexts taken now are distinct, empty and independent
			a, b := types.NewContext(), types.NewContext()
			if a == b || a == ctxs[0] || a == ctxs[1] || b == ctxs[0] || b == ctxs[1] {
				return rig.Violf("pool-alias", "step %d: after %s traffic the pool handed out a context that is already in use", i, op.K)
			}
			if a.Count() != 0 || b.Count() != 0 {
				return rig.Violf("pool-dirty", "step %d: after %s traffic NewContext returned %d / %d parameters", i, op.K, a.Count(), b.Count())
			}
			a.Set("probe", "1")
			if b.Count() != 0 {
				return rig.Violf("pool-alias", "step %d: after %s traffic two fresh contexts share their parameters", i, op.K)
			}
			a.Reset()
			a.Destroy()
			b.Destroy()
			nontriv = true
		}
		for s := range ctxs {
			if err := verify(ctxs[s], models[s], c, fmt.Sprintf("after step %d (%s) slot %d", i, op.Kind, s), ever[s]...); err != nil {
				return err
			}
		}
	}
	for i := range ctxs {
		ctxs[i].Reset() // leave nothing behind for the next case: every case is self-contained
		ctxs[i].Destroy()
	}
	st.Eval(c, nontriv, classes...)
	return nil
}

var stats = rig.NewStats("C20",
	"rapid draws a history of Set/Delete/Reset/Destroy+NewContext (a quarter of the renewals write through the destroyed reference before the new context is taken) over two live contexts with keys and values from arbitrary strings, numeric edge cases and numbers padded with runs of zeros of drawn lengths, interleaved with traffic through the library's own users of the context pool (router hit / 404 / 405 / recovered panic, group hit / miss / recovered panic on the group's not-found path, a handler issuing a nested request) after which two fresh contexts must be distinct from each other and from the live ones, empty and independent; all eleven accessors are compared with a map model and strconv after every step. Non-trivial: a value on which at least one of the four strconv parsers fails and at least one succeeds was set, a context was renewed from the pool after being non-empty, or pool traffic ran between accessor steps; distinct by hash of the whole case",
	"strconv is the trusted reference")

func TestProp(t *testing.T) { rig.RunProp(t, stats, gen, check) }

func FuzzProp(f *testing.F) { rig.FuzzProp(f, stats, gen, check) }
