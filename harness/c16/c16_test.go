// C16 — configured recovery contains every panic; without it panics pass through.
package c16

import (
	"errors"
	"fmt"
	"io"
	"log"
	"log/slog"
	"net/http"
	"strings"
	"testing"

	"github.com/issue9/mux/v9"
	"github.com/issue9/mux/v9/types"
	"pgregory.net/rapid"

	"verif/harness/rig"
)

type Rq struct {
	Method  string `json:"m"`
	Path    string `json:"path"`
	PanicAt string `json:"panic_at,omitempty"` // "" = normal request; base | m0 | m1 | m5 | mg
	After   bool   `json:"after,omitempty"`
	Val     string `json:"val,omitempty"` // string error int ptr abort
	Sub     bool   `json:"sub,omitempty"` // the handler issues a nested request to the same subject before answering
	Srv     bool   `json:"srv,omitempty"` // the request context is the one net/http's server provides (ServerContextKey set)
	ACRH    string `json:"acrh,omitempty"`
}

type Case struct {
	Subject  string `json:"subject"`  // router gnew gnewown gadd
	Recovery string `json:"recovery"` // none func status write log slog nilled
	Status   int    `json:"status"`
	Trace    bool   `json:"trace"`
	// CORS: the subject also has a CORS option with a header allow-list, and OPTIONS requests are preflights whose
	// Access-Control-Request-Headers may hold empty elements - library code that runs inside the recovered region
	CORS    bool `json:"cors,omitempty"`
	UseLate bool `json:"use_late"` // Use after the registrations instead of before
	// Sib: group subjects only - before ("before") or after ("after") the subject router, Group.New makes a sibling
	// router with a recovery function of its own (matcher /v9: no request of the case goes there)
	Sib  string `json:"sib,omitempty"`
	Reqs []Rq   `json:"reqs"`
}

var (
	// ... and two paths of a length beyond the usual (a parameter value and an unknown path of 5000 and 70000 bytes)
	paths   = []string{"/a", "/a", "/b/7", "/b/xyz", "/nope", "*", "", "/a", "/b/7", "/nope", "/b/" + strings.Repeat("x", 5000), "/nope/" + strings.Repeat("n", 70000)}
	methods = []string{"GET", "GET", "HEAD", "POST", "OPTIONS", "PUT", "TRACE", "DELETE"}
)

func gen(t *rapid.T) Case {
	c := Case{
		Subject:  rapid.SampledFrom([]string{"router", "gnew", "gnewown", "gnewboth", "gadd"}).Draw(t, "subject"),
		Recovery: rapid.SampledFrom([]string{"none", "none", "func", "func", "func", "status", "status", "write", "log", "slog", "nilled"}).Draw(t, "recovery"),
		Status:   rapid.SampledFrom([]int{500, 503, 418}).Draw(t, "status"),
		Trace:    rapid.Bool().Draw(t, "trace"),
		UseLate:  rapid.Bool().Draw(t, "useLate"),
		CORS:     rapid.IntRange(0, 3).Draw(t, "cors") == 0,
	}
	if c.Subject != "router" {
		c.Sib = rapid.SampledFrom([]string{"", "", "before", "after"}).Draw(t, "sib")
	}
	for i, n := 0, rapid.IntRange(1, 8).Draw(t, "nreqs"); i < n; i++ {
		q := Rq{Method: rapid.SampledFrom(methods).Draw(t, "m"), Path: rapid.SampledFrom(paths).Draw(t, "path")}
		if c.Subject != "router" && rapid.IntRange(0, 5).Draw(t, "unmatched") == 0 {
			q.Path = "/zz/unmatched"
		}
		if rapid.IntRange(0, 9).Draw(t, "panics") < 6 {
			q.PanicAt = rapid.SampledFrom([]string{"base", "base", "m0", "m1", "m5", "mg"}).Draw(t, "at")
			q.After = rapid.Bool().Draw(t, "after")
			q.Val = rapid.SampledFrom([]string{"string", "error", "int", "ptr", "abort"}).Draw(t, "val")
		}
		q.Sub = rapid.IntRange(0, 3).Draw(t, "sub") == 0
		q.Srv = rapid.IntRange(0, 2).Draw(t, "underServer") == 0
		if c.CORS && q.Method == "OPTIONS" {
			q.ACRH = rapid.SampledFrom([]string{"X-A", "X-A,", ",X-B", "X-A,,X-B", ", ,", " ", "x-a , X-B", "X-C", "\t"}).Draw(t, "acrh")
		}
		c.Reqs = append(c.Reqs, q)
	}
	return c
}

type world struct {
	env    *rig.Env
	h      http.Handler
	recov  []any
	grecov []any // calls of the group's own recovery function (subject gnewboth)
	srecov []any // calls of the sibling router's recovery function: must stay empty
}

type marker struct{ n int }

func build(c Case) *world {
	w := &world{env: rig.NewEnv()}
	var opts []mux.Option
	if c.CORS {
		opts = append(opts, mux.WithCORS([]string{"*"}, []string{"X-A", "X-B"}, nil, 0, false))
	}
	switch c.Recovery {
	case "func":
		opts = append(opts, mux.WithRecovery(func(rw http.ResponseWriter, v any) {
			w.recov = append(w.recov, v)
			rw.WriteHeader(599)
		}))
	case "nilled":
		// a recovery option followed by WithRecovery(nil): the last option wins, so there is no recovery
		opts = append(opts, mux.WithStatusRecovery(c.Status), mux.WithRecovery(nil))
	case "status":
		opts = append(opts, mux.WithStatusRecovery(c.Status))
	case "write": // the three reporting variants answer the status like WithStatusRecovery and write a stack somewhere
		opts = append(opts, mux.WithWriteRecovery(c.Status, io.Discard))
	case "log":
		opts = append(opts, mux.WithLogRecovery(c.Status, log.New(io.Discard, "", 0)))
	case "slog":
		opts = append(opts, mux.WithSLogRecovery(c.Status, slog.New(slog.NewTextHandler(io.Discard, nil))))
	}
	populate := func(r *mux.Router[*rig.H]) {
		if !c.UseLate {
			r.Use(w.env.NewMW("m0"), w.env.NewMW("m1"))
		}
		r.Handle("/a", w.env.NewH(), []rigMW{w.env.NewMW("m5")}, "GET", "POST")
		r.Handle("/b/{id}", w.env.NewH(), nil, "GET")
		if c.UseLate {
			r.Use(w.env.NewMW("m0"), w.env.NewMW("m1"))
		}
	}
	traceOpt := func() []mux.Option {
		if !c.Trace {
			return nil
		}
		o, _ := w.env.Options(rig.Opts{Trace: true})
		return o
	}
	sibling := func(g *rig.Group, when string) {
		if c.Sib != when {
			return
		}
		sr := g.New("sib", mux.NewPathVersion("", "v9"), mux.WithRecovery(func(rw http.ResponseWriter, v any) {
			w.srecov = append(w.srecov, v)
			rw.WriteHeader(597)
		}))
		sr.Handle("/a", w.env.NewH(), nil, "GET")
	}
	switch c.Subject {
	case "router":
		r := w.env.NewRouter("r", rig.Opts{Trace: c.Trace, Extra: opts})
		populate(r.Router)
		w.h = r
	case "gnew":
		g := w.env.NewGroup(opts...)
		g.Use(w.env.NewMW("mg"))
		sibling(g, "before")
		r := g.New("r", mux.NewPathVersion("", "v1"), traceOpt()...)
		sibling(g, "after")
		populate(r)
		w.h = g
	case "gnewboth": // the group has a recovery function of its own; Group.New overrides it for the router
		gopt := mux.WithRecovery(func(rw http.ResponseWriter, v any) {
			w.grecov = append(w.grecov, v)
			rw.WriteHeader(598)
		})
		g := w.env.NewGroup(gopt)
		g.Use(w.env.NewMW("mg"))
		// with recovery "none" the router gets no option of its own and inherits the group's function
		sibling(g, "before")
		r := g.New("r", mux.NewPathVersion("", "v1"), append(traceOpt(), opts...)...)
		sibling(g, "after")
		populate(r)
		w.h = g
	case "gnewown": // the group has no recovery option; the router made by Group.New gets its own
		g := w.env.NewGroup()
		g.Use(w.env.NewMW("mg"))
		sibling(g, "before")
		r := g.New("r", mux.NewPathVersion("", "v1"), append(traceOpt(), opts...)...)
		sibling(g, "after")
		populate(r)
		w.h = g
	default:
		g := w.env.NewGroup(opts...)
		sibling(g, "before")
		r := w.env.NewRouter("r", rig.Opts{Trace: c.Trace, Extra: opts})
		populate(r.Router)
		g.Add(mux.NewPathVersion("", "v1"), r.Router)
		sibling(g, "after")
		g.Use(w.env.NewMW("mg"))
		w.h = g
	}
	return w
}

func (w *world) serve(c Case, q Rq, val any) *rig.Outcome {
	path := q.Path
	if c.Subject != "router" && path != "/zz/unmatched" {
		path = "/v1" + path
	}
	req := rig.Req{Method: q.Method, Path: path, PanicAt: q.PanicAt, PanicAfter: q.After, PanicWith: val, UnderServer: q.Srv}
	if q.ACRH != "" {
		req.Header = map[string][]string{"Origin": {"https://a.example"}, "Access-Control-Request-Method": {"GET"}, "Access-Control-Request-Headers": {q.ACRH}}
	}
	if q.Sub {
		sub := "/b/9sub"
		if c.Subject != "router" {
			sub = "/v1" + sub
		}
		req.Sub = &rig.Req{Method: "GET", Path: sub}
		req.SubHandler = w.h
	}
	return rig.Serve(w.h, req)
}

// noRecovery: no recovery option is in force for the routers of the case.
func noRecovery(c Case) bool { return c.Recovery == "none" || c.Recovery == "nilled" }

func summary(o *rig.Outcome) string {
	s := fmt.Sprintf("%s/%s route=%q params=%v params-after-handler=%v status=%d mws=%v content-length=%q body-bytes=%d", o.BaseKind, o.BaseID, o.Pattern, o.Params, o.ParamsAfter, o.EffStatus(), o.Trace, o.Header.Get("Content-Length"), len(o.Body))
	if o.SubOutcome != nil {
		s += " nested[" + summary(o.SubOutcome) + "]"
	}
	return s
}

func check(c Case, st *rig.Stats) error {
	base := build(c) // never sees a fault: the reference for "served normally"
	sub := build(c)
	nontriv := false
	var classes []string
	firedBefore := false
	// the twin answers every request first, before any fault exists in this process: the context pool is
	// process-wide, so a twin that ran interleaved with the subject would suffer the same damage
	normals := make([]*rig.Outcome, len(c.Reqs))
	for i, q := range c.Reqs {
		normals[i] = base.serve(c, Rq{Method: q.Method, Path: q.Path, Sub: q.Sub, Srv: q.Srv, ACRH: q.ACRH}, nil)
	}
	for i, q := range c.Reqs {
		var val any
		switch q.Val {
		case "string":
			val = fmt.Sprintf("boom-%d", i)
		case "error":
			val = errors.New("boom")
		case "int":
			val = 1000 + i
		case "ptr":
			val = &marker{i}
		case "abort":
			val = http.ErrAbortHandler
		}
		normal := normals[i]
		if normal.Panicked {
			classes = append(classes, "baseline-panics(C05's-subject)")
			continue
		}
		nrec, ngrec := len(sub.recov), len(sub.grecov)
		o := sub.serve(c, q, val)
		where := fmt.Sprintf("request %d %+v (subject %s, recovery %s, trace %v); normal outcome: %s", i, q, c.Subject, c.Recovery, c.Trace, summary(normal))
		calls := len(sub.recov) - nrec
		gcalls := len(sub.grecov) - ngrec
		if len(sub.srecov) != 0 {
			return rig.Violf("foreign-recovery-function", "%s: the recovery function given only to a sibling router (Group.New(\"sib\", /v9, WithRecovery(f))) was called with %#v", where, sub.srecov[0])
		}
		groupLevel := normal.RouterName == "" // served by the group itself (its not-found handler), not by a router
		if c.Subject == "gnewboth" {
			switch {
			case !o.Fired && gcalls != 0:
				return rig.Violf("spurious-panic-or-recovery", "%s: no fault was raised but the group's recovery function ran", where)
			case o.Fired && c.Recovery == "nilled" && !groupLevel:
				// Group.New(..., WithStatusRecovery, WithRecovery(nil)): the router's last word is "no recovery", which
				// overrides what the group was given - the panic reaches the caller and nobody's function runs
				if !o.Panicked || o.PanicKind != "injected" || gcalls != 0 || calls != 0 {
					return rig.Violf("panic-value-changed-or-swallowed", "%s: the router was made with ..., WithRecovery(nil): escaped=%v (%s), group function calls=%d, router function calls=%d", where, o.Panicked, o.PanicKind, gcalls, calls)
				}
				classes = append(classes, "fired:recovery-switched-off-by-nil")
				firedBefore = true
				continue
			case o.Fired && (groupLevel || c.Recovery == "none"):
				if o.Panicked || gcalls != 1 || calls != 0 || rig.ClassifyPanic(sub.grecov[len(sub.grecov)-1], val) != "injected" {
					return rig.Violf("group-recovery", "%s: a panic where only the group's recovery function applies (its own not-found path, or a Group.New router that inherits it): escaped=%v, group function calls=%d, router function calls=%d", where, o.Panicked, gcalls, calls)
				}
				classes = append(classes, "fired:group-level-recovery")
				firedBefore = true
				continue
			case o.Fired && gcalls != 0:
				return rig.Violf("wrong-recovery-function", "%s: the router made by Group.New has its own recovery option, but the group's function ran %d times (router's: %d)", where, gcalls, calls)
			}
		}
		switch {
		case !o.Fired:
			if o.Panicked || calls != 0 {
				return rig.Violf("spurious-panic-or-recovery", "%s: no fault was raised but panicked=%v (%v), recovery calls=%d", where, o.Panicked, o.PanicVal, calls)
			}
			if summary(o) != summary(normal) {
				return rig.Violf("not-served-normally", "%s: got %s (after earlier panics: %v)", where, summary(o), firedBefore)
			}
			if q.Sub && normal.SubOutcome != nil {
				classes = append(classes, "nested-request")
			}
			if firedBefore {
				classes = append(classes, "normal-request-after-a-panic")
				if q.Path == "/b/7" || q.Path == "/b/xyz" {
					classes = append(classes, "…with-parameters")
				}
			}
		case noRecovery(c) || (c.Subject == "gnewown" && normal.RouterName == ""): // the group itself has no recovery option
			classes = append(classes, "fired:no-recovery")
			if !o.Panicked || o.PanicKind != "injected" {
				return rig.Violf("panic-value-changed-or-swallowed", "%s: without a recovery option the caller saw panicked=%v value %#v (%s), raised %#v", where, o.Panicked, o.PanicVal, o.PanicKind, val)
			}
		default:
			classes = append(classes, "fired:"+c.Recovery+":"+q.PanicAt)
			if o.Panicked {
				return rig.Violf("panic-escaped", "%s: the panic escaped ServeHTTP although recovery %q is configured: %#v", where, c.Recovery, o.PanicVal)
			}
			if c.Recovery == "func" {
				if calls != 1 {
					return rig.Violf("recovery-call-count", "%s: the recovery function ran %d times", where, calls)
				}
				if rig.ClassifyPanic(sub.recov[len(sub.recov)-1], val) != "injected" {
					return rig.Violf("recovery-value", "%s: the recovery function received %#v, raised %#v", where, sub.recov[len(sub.recov)-1], val)
				}
			} else if !q.After && o.EffStatus() != c.Status {
				return rig.Violf("status-recovery", "%s: WithStatusRecovery(%d) answered %d", where, c.Status, o.EffStatus())
			}
		}
		if o.Fired {
			firedBefore = true
			if q.PanicAt != "base" || normal.BaseKind != "route" {
				nontriv = true
			}
		}
	}
	if c.Sib != "" {
		classes = append(classes, "sibling-router-with-its-own-recovery:"+c.Sib)
	}
	st.Eval(c, nontriv, classes...)
	return nil
}

var stats = rig.NewStats("C16",
	"rapid draws a subject (Router; Group whose router is made by Group.New, with the recovery option given to NewGroup, only to Group.New, or to both with different functions (the router's must win); Group with an Added router carrying its own option), a recovery mode (none, WithRecovery(f), WithStatusRecovery, WithWriteRecovery / WithLogRecovery / WithSLogRecovery with a discarding sink), WithTrace on/off, Use before or after the registrations, for group subjects optionally a sibling router made by Group.New with a recovery function of its own before or after the subject (that function must never run), and 1-8 requests (eight methods x live, parameterised, unknown, '*', '' and group-unmatched paths) of which about 60% carry a fault: panic in the base handler (route, HEAD, OPTIONS, 405, 404, TRACE, group not-found) or in middleware layer m0 / m1 (Use) / m5 (route) / mg (Group.Use), before or after next, with a string, error, int, pointer or http.ErrAbortHandler value; a quarter of the requests are served by a handler that itself issues a nested request to the same subject (so two request contexts are alive at once). A fault-free twin built identically gives the normal outcome. Oracle: with recovery nothing escapes ServeHTTP, f runs exactly once with the identical value (== / same pointer), WithStatusRecovery answers its status; without recovery the identical value reaches the caller; requests whose fault point is not on their path, and all later requests, are served exactly like the twin (handler, route, parameters as seen before and after the handler ran, status, middlewares, and the same for the nested request). Non-trivial: a fault fired outside a plain route handler (middleware layer or generated handler); distinct by hash of the case. Later additions to the generated domain: A third of the requests carry the context values net/http's server provides (http.ServerContextKey); request paths include a 5000-byte parameter value and a 70000-byte unknown path. A quarter of the subjects have a CORS allow-list and their OPTIONS requests are preflights whose header list has empty or blank elements.",
	"Added routers carry the same recovery option as their group (a group only promises recovery for routers it created and for its own not-found handler)")

type rigMW = types.Middleware[*rig.H]

func TestProp(t *testing.T) { rig.RunProp(t, stats, gen, check) }

func FuzzProp(f *testing.F) { rig.FuzzProp(f, stats, gen, check) }
