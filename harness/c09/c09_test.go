// C09 — middlewares wrap every handler in the documented onion order.
package c09

import (
	"fmt"
	"testing"

	"github.com/issue9/mux/v9"
	"github.com/issue9/mux/v9/types"
	"pgregory.net/rapid"

	"verif/harness/pat"
	"verif/harness/ref"
	"verif/harness/rig"
)

// Step of a middleware program. Objects are numbered: 0 and 1 are the two
// routers themselves, later ones are Prefix / Resource objects in creation order.
type Step struct {
	Kind    string   `json:"kind"` // use mkprefix mkresource handle remove clean guse gadd gnew g2use g2add
	Router  int      `json:"router,omitempty"`
	Obj     int      `json:"obj,omitempty"`
	Text    string   `json:"text,omitempty"`
	MWs     []int    `json:"mws,omitempty"`
	Methods []string `json:"methods,omitempty"`
	// Drain (remove): name every method the pattern has at that moment (the node stays when routes hang below it)
	Drain bool `json:"drain,omitempty"`
}

type Case struct {
	Trace bool   `json:"trace"`
	Steps []Step `json:"steps"`
}

var (
	prefixTexts = []string{"/a", "/b", "", "/a/{x}", "/c/"}
	suffixes    = []string{"/1", "/2", "/{id}", "", "/1/{n}"}
	methodSets  = [][]string{{"GET"}, {"POST"}, {"GET", "POST"}, {"DELETE"}, nil, {"PUT", "GET"}}
)

func gen(t *rapid.T) Case {
	c := Case{Trace: rapid.Bool().Draw(t, "trace")}
	nobj := 2
	var lastMWs []int
	mws := func(max int) []int {
		if rapid.IntRange(0, 2).Draw(t, "headOfChain") == 0 {
			// the first j entries of the caller's one chain m0, m1, m2, m3: the harness hands out chain[:j] of a single
			// array, so the entries behind j are live values another call will pass later
			return seq(rapid.IntRange(0, max).Draw(t, "chainHead"))
		}
		return rapid.SliceOfN(rapid.IntRange(0, 3), 0, max).Draw(t, "mws")
	}
	if rapid.IntRange(0, 7).Draw(t, "interiorTemplate") == 0 {
		// the life of an interior node: a pattern and a longer one below it, the first emptied method by method (its
		// node stays), registered again, and only then a Use - whatever follows is drawn as usual
		p := rapid.SampledFrom([]string{"/a", "/b", "/c/"}).Draw(t, "tplP")
		ms := rapid.SampledFrom(methodSets).Draw(t, "tplMethods")
		c.Steps = append(c.Steps,
			Step{Kind: "handle", Obj: 0, Text: p, Methods: ms, MWs: mws(1)},
			Step{Kind: "handle", Obj: 0, Text: p + rapid.SampledFrom([]string{"/1", "/{id}", "1"}).Draw(t, "tplExt"), Methods: []string{"GET"}},
			Step{Kind: "remove", Obj: 0, Text: p, Methods: []string{"GET"}, Drain: true},
			Step{Kind: "handle", Obj: 0, Text: p, Methods: rapid.SampledFrom(methodSets).Draw(t, "tplMethods2"), MWs: mws(1)},
			Step{Kind: "use", Router: 0, MWs: []int{rapid.IntRange(0, 7).Draw(t, "tplUse")}})
	}
	if len(c.Steps) == 0 && rapid.IntRange(0, 7).Draw(t, "deepTemplate") == 0 {
		// nesting of a depth beyond the usual: a chain of three to nine prefixes, two or three sibling prefixes below the
		// deepest, and a route through each sibling - the older siblings after the younger ones exist
		d := rapid.IntRange(3, 9).Draw(t, "deepD")
		parent := 0
		for i := 0; i < d; i++ {
			c.Steps = append(c.Steps, Step{Kind: "mkprefix", Obj: parent, Text: rapid.SampledFrom([]string{"/a", "", "/c/", "/b"}).Draw(t, "deepText"), MWs: []int{rapid.IntRange(0, 3).Draw(t, "deepMW")}})
			parent = nobj
			nobj++
		}
		var sibs []int
		for i, k := 0, rapid.IntRange(2, 3).Draw(t, "deepSibs"); i < k; i++ {
			c.Steps = append(c.Steps, Step{Kind: "mkprefix", Obj: parent, Text: []string{"/1", "/2", "/{id}"}[i], MWs: []int{(i + 1) % 4}})
			sibs = append(sibs, nobj)
			nobj++
		}
		for _, o := range sibs {
			c.Steps = append(c.Steps, Step{Kind: "handle", Obj: o, Text: rapid.SampledFrom([]string{"", "/1"}).Draw(t, "deepSuffix"), Methods: []string{"GET"}, MWs: mws(1)})
		}
	}
	for i, n := 0, rapid.IntRange(1, rig.Up(20)).Draw(t, "nsteps"); i < n; i++ {
		var s Step
		switch k := rapid.IntRange(0, 21).Draw(t, "kind"); {
		case k == 20:
			// a second group: router 0 may be added to it as well, and it has a Use list of its own
			s = Step{Kind: "g2use", MWs: rapid.SliceOfN(rapid.IntRange(0, 7), 1, 2).Draw(t, "g2mws")}
		case k == 21:
			s = Step{Kind: "g2add"}
		case k < 4:
			s = Step{Kind: "use", Router: rapid.IntRange(0, 1).Draw(t, "router"), MWs: rapid.SliceOfN(rapid.IntRange(0, 7), 1, 2).Draw(t, "usemws")}
		case k < 7:
			s = Step{Kind: "mkprefix", Obj: rapid.IntRange(0, nobj-1).Draw(t, "parent"), Text: rapid.SampledFrom(prefixTexts).Draw(t, "ptext"), MWs: mws(2)}
			if nobj > 2 && rapid.IntRange(0, 3).Draw(t, "nestUnderFacade") > 0 {
				s.Obj = rapid.IntRange(2, nobj-1).Draw(t, "facadeParent") // nest under an existing Prefix object
			}
			if len(lastMWs) > 0 && rapid.IntRange(0, 3).Draw(t, "sameCommonList") > 0 {
				s.MWs = lastMWs // the caller's "common" list again (the harness hands out one slice per list)
			}
			if len(s.MWs) > 0 {
				lastMWs = s.MWs
			}
			nobj++
		case k < 9:
			s = Step{Kind: "mkresource", Obj: rapid.IntRange(0, nobj-1).Draw(t, "parent"), Text: rapid.SampledFrom(suffixes).Draw(t, "rtext"), MWs: mws(2)}
			nobj++
		case k < 15:
			s = Step{Kind: "handle", Obj: rapid.IntRange(0, nobj-1).Draw(t, "via"), Text: rapid.SampledFrom(suffixes).Draw(t, "suffix"), MWs: mws(2),
				Methods: rapid.SampledFrom(methodSets).Draw(t, "methods")}
		case k < 17:
			s = Step{Kind: "remove", Obj: rapid.IntRange(0, nobj-1).Draw(t, "via"), Text: rapid.SampledFrom(suffixes).Draw(t, "suffix")}
			if rapid.Bool().Draw(t, "rmMethods") {
				s.Methods = rapid.SampledFrom(methodSets[:4]).Draw(t, "rmm")
				s.Drain = rapid.Bool().Draw(t, "rmDrain")
				if !s.Drain && rapid.IntRange(0, 3).Draw(t, "rmIgnored") == 0 {
					// names that a removal ignores by contract (what strings.Split leaves behind, the automatic methods,
					// another letter case): the automatic handlers and their middlewares must stay as they are
					s.Methods = append(append([]string{}, s.Methods...), rapid.SampledFrom([]string{"", "HEAD", "OPTIONS", "get", " "}).Draw(t, "rmIgnoredName"))
					if rapid.Bool().Draw(t, "rmOnlyIgnored") {
						s.Methods = s.Methods[len(s.Methods)-1:]
					}
				}
			}
		case k < 18 && rapid.IntRange(0, 2).Draw(t, "cleanInstead") == 0:
			s = Step{Kind: "clean", Router: rapid.IntRange(0, 1).Draw(t, "cleanRouter")}
		case k < 18:
			s = Step{Kind: "guse", MWs: rapid.SliceOfN(rapid.IntRange(0, 7), 1, 2).Draw(t, "gmws")}
		case k < 19:
			s = Step{Kind: "gadd"}
		default:
			s = Step{Kind: "gnew"}
		}
		c.Steps = append(c.Steps, s)
	}
	return c
}

// ---- model -----------------------------------------------------------------

type reg struct {
	hid   string
	inner [][]string // argument lists from the outermost prefix call to the registration call
}

type routeM struct {
	methods map[string]reg
	auto    [][]string // lists carried by the automatic OPTIONS / 405 handlers
}

type routerM struct {
	name   string
	r      *rig.Router
	use    []string // chronological
	routes map[string]*routeM
}

type objM struct {
	router   int
	kind     string // router prefix resource dead
	pattern  string
	stack    [][]string
	prefix   *mux.Prefix[*rig.H]
	resource *mux.Resource[*rig.H]
}

// onion renders the expected middleware names outermost first.
func onion(use []string, lists [][]string) []string {
	var out []string
	for i := len(use) - 1; i >= 0; i-- {
		out = append(out, use[i])
	}
	for _, l := range lists {
		for i := len(l) - 1; i >= 0; i-- {
			out = append(out, l[i])
		}
	}
	return out
}

func eq(a, b []string) bool {
	if len(a) != len(b) {
		return false
	}
	for i := range a {
		if a[i] != b[i] {
			return false
		}
	}
	return true
}

func seq(n int) []int {
	s := make([]int, n)
	for i := range s {
		s[i] = i
	}
	return s
}

func check(c Case, st *rig.Stats) error {
	env := rig.NewEnv()
	mwName := func(i int) string { return fmt.Sprintf("m%d", i) }
	mwObjs := map[int]types.Middleware[*rig.H]{}
	var chain []types.Middleware[*rig.H] // m0..m3 in one array; lists that are a head of it are slices of it
	for i := 0; i < 4; i++ {
		mwObjs[i] = env.NewMW(mwName(i))
		chain = append(chain, mwObjs[i])
	}
	// one slice per distinct middleware list, with spare capacity, handed to every call that asks for
	// that list: what callers do with a shared "common" slice
	shared := map[string][]types.Middleware[*rig.H]{}
	sharedNames := map[string][]string{}
	mk := func(ids []int) ([]types.Middleware[*rig.H], []string) {
		key := fmt.Sprint(ids)
		if len(ids) > 0 && len(ids) <= len(chain) && key == fmt.Sprint(seq(len(ids))) {
			var ns []string
			for _, i := range ids {
				ns = append(ns, mwName(i))
			}
			return chain[:len(ids)], ns
		}
		if ms, ok := shared[key]; ok {
			return ms, sharedNames[key]
		}
		ms := make([]types.Middleware[*rig.H], 0, len(ids)+3)
		var ns []string
		defer func() { shared[key], sharedNames[key] = ms, ns }()
		for _, i := range ids {
			if mwObjs[i] == nil {
				mwObjs[i] = env.NewMW(mwName(i))
			}
			ms = append(ms, mwObjs[i])
			ns = append(ns, mwName(i))
		}
		return ms, ns
	}
	grp := env.NewGroup()
	grp2 := env.NewGroup()
	var guse, g2use []string
	inGroup2 := false
	routers := []*routerM{{name: "r0", r: env.NewRouter("r0", rig.Opts{Trace: c.Trace}), routes: map[string]*routeM{}}, nil}
	inGroup := []bool{false, false}
	objs := []*objM{{router: 0, kind: "router"}, {router: 1, kind: "router"}}
	nontriv := false
	var classes []string
	regSeen, useSeen, useAfterReg, regAfterUse := false, false, false, false

	for si, s := range c.Steps {
		when := fmt.Sprintf("after step %d %+v (program %+v)", si, s, c.Steps[:si+1])
		switch s.Kind {
		case "use":
			rm := routers[s.Router]
			if rm == nil {
				break
			}
			ms, ns := mk(s.MWs)
			rm.r.Use(ms...)
			rm.use = append(rm.use, ns...)
			useSeen = true
			if regSeen {
				useAfterReg = true
			}
		case "clean":
			if rm := routers[s.Router]; rm != nil {
				rm.r.Clean() // the routes go; what was Use'd stays for everything registered afterwards
				rm.routes = map[string]*routeM{}
				classes = append(classes, "Router.Clean")
			}
		case "guse":
			ms, ns := mk(s.MWs)
			grp.Use(ms...)
			guse = append(guse, ns...)
			for i, rm := range routers {
				if rm != nil && inGroup[i] {
					rm.use = append(rm.use, ns...)
				}
			}
			useSeen = true
			if regSeen {
				useAfterReg = true
			}
		case "g2use":
			ms, ns := mk(s.MWs)
			grp2.Use(ms...)
			g2use = append(g2use, ns...)
			if inGroup2 {
				routers[0].use = append(routers[0].use, ns...)
			}
			useSeen = true
			if regSeen {
				useAfterReg = true
			}
		case "g2add":
			if inGroup2 {
				break
			}
			// what the second group has Use'd so far wraps the router now, on top of everything it already carries
			grp2.Add(mux.NewPathVersion("", "v0"), routers[0].r.Router)
			routers[0].use = append(routers[0].use, g2use...)
			inGroup2 = true
			classes = append(classes, "router-added-to-a-second-group")
		case "gadd":
			if inGroup[0] {
				// already a member: the second Add must be refused without wrapping anything again
				if _, panicked := rig.Try(func() { grp.Add(mux.NewPathVersion("", "v9"), routers[0].r.Router) }); !panicked {
					return rig.Violf("duplicate-router-accepted", "%s: a router that is already a member was added again", when)
				}
				classes = append(classes, "member-offered-again")
				break
			}
			grp.Add(mux.NewPathVersion("", "v0"), routers[0].r.Router)
			routers[0].use = append(routers[0].use, guse...)
			inGroup[0] = true
		case "gnew":
			if routers[1] != nil {
				break
			}
			// a router made by Group.New: same builders as the group, not-found = the group's original one
			var opts []mux.Option
			var th *rig.H
			if c.Trace {
				opts, th = env.Options(rig.Opts{Trace: true})
			}
			r := grp.New("r1", mux.NewPathVersion("", "v1"), opts...)
			routers[1] = &routerM{name: "r1", r: &rig.Router{Router: r, Env: env, NotFound: grp.NotFound, TraceH: th}, routes: map[string]*routeM{}}
			routers[1].use = append(routers[1].use, guse...)
			inGroup[1] = true
		case "mkprefix", "mkresource":
			parent := objs[s.Obj]
			o := &objM{router: parent.router, kind: "dead"}
			objs = append(objs, o)
			rm := routers[parent.router]
			if rm == nil || parent.kind == "dead" || parent.kind == "resource" {
				break
			}
			ms, ns := mk(s.MWs)
			o.pattern = parent.pattern + s.Text
			o.stack = append(append([][]string{}, parent.stack...), ns)
			if s.Kind == "mkprefix" {
				o.kind = "prefix"
				if parent.kind == "router" {
					o.prefix = rm.r.Prefix(s.Text, ms...)
				} else {
					o.prefix = parent.prefix.Prefix(s.Text, ms...)
				}
				if len(o.stack) >= 2 {
					nontriv = true
					classes = append(classes, "prefix-nesting-depth>=2")
				}
			} else {
				o.kind = "resource"
				if o.pattern == "" {
					o.kind = "dead"
					break
				}
				if parent.kind == "router" {
					o.resource = rm.r.Resource(s.Text, ms...)
				} else {
					o.resource = parent.prefix.Resource(s.Text, ms...)
				}
			}
		case "handle":
			o := objs[s.Obj]
			rm := routers[o.router]
			if rm == nil || o.kind == "dead" {
				break
			}
			pattern := o.pattern + s.Text
			if o.kind == "resource" {
				pattern = o.pattern
			}
			if pattern == "" {
				break
			}
			ms, ns := mk(s.MWs)
			h := env.NewH()
			_, panicked := rig.Try(func() {
				switch o.kind {
				case "router":
					rm.r.Handle(pattern, h, ms, s.Methods...)
				case "prefix":
					o.prefix.Handle(s.Text, h, ms, s.Methods...)
				case "resource":
					o.resource.Handle(h, ms, s.Methods...)
				}
			})
			if panicked {
				classes = append(classes, "handle-rejected")
				break
			}
			lists := append(append([][]string{}, o.stack...), ns)
			rt := rm.routes[pattern]
			if rt == nil {
				rt = &routeM{methods: map[string]reg{}, auto: lists}
				rm.routes[pattern] = rt
			}
			for _, m := range ref.Expand(s.Methods) {
				rt.methods[m] = reg{hid: h.ID, inner: lists}
			}
			regSeen = true
			if useSeen {
				regAfterUse = true
			}
		case "remove":
			o := objs[s.Obj]
			rm := routers[o.router]
			if rm == nil || o.kind == "dead" {
				break
			}
			pattern := o.pattern + s.Text
			if o.kind == "resource" {
				pattern = o.pattern
			}
			if rt := rm.routes[pattern]; s.Drain && rt != nil {
				s.Methods = nil
				for _, m := range []string{"GET", "POST", "DELETE", "PUT", "PATCH", "CONNECT"} {
					if _, ok := rt.methods[m]; ok {
						s.Methods = append(s.Methods, m)
					}
				}
				classes = append(classes, "pattern-drained-method-by-method")
			}
			switch o.kind {
			case "router":
				rm.r.Remove(pattern, s.Methods...)
			case "prefix":
				o.prefix.Remove(s.Text, s.Methods...)
			case "resource":
				pattern = o.pattern
				o.resource.Remove(s.Methods...)
			}
			if rt := rm.routes[pattern]; rt != nil {
				if len(s.Methods) == 0 {
					delete(rm.routes, pattern)
				} else {
					for _, m := range s.Methods {
						delete(rt.methods, m)
					}
					if len(rt.methods) == 0 {
						delete(rm.routes, pattern)
					}
				}
			}
		}
		if useAfterReg && regAfterUse {
			nontriv = true
		}

		// the factory log: every (middleware, wrapped handler, method) at most once
		type key struct{ mw, next, method, router string }
		log := map[key][]rig.WrapRec{}
		for _, rec := range env.Log {
			k := key{rec.MW, rec.NextID, rec.Method, rec.Router}
			log[k] = append(log[k], rec)
			if len(log[k]) > 1 {
				return rig.Violf("factory-invoked-twice", "%s: middleware %s was applied %d times to handler %s for method %q: %+v", when, rec.MW, len(log[k]), rec.NextID, rec.Method, log[k])
			}
		}
		// judge one probe
		judge := func(what string, o *rig.Outcome, wantBase string, wantKind string, want []string, method, pattern, router string) error {
			if o.Panicked {
				return rig.Violf("panic", "%s: %s panicked: %v", when, what, o.PanicVal)
			}
			if wantBase != "" && o.BaseID != wantBase || o.BaseKind != wantKind {
				return rig.Violf("wrong-base-handler", "%s: %s ran %s(%s), want %s(%s)", when, what, o.BaseID, o.BaseKind, wantBase, wantKind)
			}
			if !eq(o.Trace, want) {
				return rig.Violf("onion-order", "%s: %s ran middlewares %v (outermost first), documented order gives %v; handler %s", when, what, o.Trace, want, o.HandlerID)
			}
			// wrap-time arguments, innermost first
			classes = append(classes, "judged:"+wantKind)
			next := o.BaseID
			for i := len(o.Trace) - 1; i >= 0; i-- {
				recs := log[key{o.Trace[i], next, method, router}]
				if len(recs) != 1 {
					return rig.Violf("factory-args", "%s: %s: no single factory record for middleware %s wrapping %s with method %q (found %+v); log %+v", when, what, o.Trace[i], next, method, recs, env.Log)
				}
				if recs[0].Pattern != pattern || recs[0].Router != router {
					return rig.Violf("factory-args", "%s: %s: middleware %s wrapping %s got (method %q, pattern %q, router %q), want (%q, %q, %q)", when, what, o.Trace[i], next, recs[0].Method, recs[0].Pattern, recs[0].Router, method, pattern, router)
				}
				next = o.Trace[i] + "(" + next + ")"
			}
			return nil
		}
		for _, rm := range routers {
			if rm == nil {
				continue
			}
			var live []*pat.Pattern
			for p := range rm.routes {
				if pp, err := pat.Parse(p, nil); err == nil {
					live = append(live, pp)
				}
			}
			for _, pp := range live {
				path, _, _ := pp.Witness(0)
				for _, m := range []string{"GET", "HEAD", "POST", "DELETE", "PUT", "PATCH", "OPTIONS", "CONNECT"} {
					o := rig.Serve(rm.r, rig.Req{Method: m, Path: path})
					rt := rm.routes[o.Pattern]
					if o.Panicked || rt == nil {
						if o.Panicked {
							return rig.Violf("panic", "%s: %s %s panicked: %v", when, m, path, o.PanicVal)
						}
						classes = append(classes, "probe-not-routed-to-live-route")
						continue
					}
					what := fmt.Sprintf("%s %s %q (route %q)", rm.name, m, path, o.Pattern)
					lookup := m
					if m == "HEAD" {
						lookup = "GET"
					}
					var err error
					switch rg, ok := rt.methods[lookup]; {
					case ok:
						err = judge(what, o, rg.hid, "route", onion(rm.use, rg.inner), m, o.Pattern, rm.name)
					case m == "OPTIONS":
						err = judge(what, o, "", "options", onion(rm.use, rt.auto), "OPTIONS", o.Pattern, rm.name)
					default:
						err = judge(what, o, "", "405", onion(rm.use, rt.auto), "", o.Pattern, rm.name)
					}
					if err != nil {
						return err
					}
				}
			}
			o := rig.Serve(rm.r, rig.Req{Method: "GET", Path: "nope-zz"})
			if err := judge(rm.name+" GET nope-zz", o, rm.r.NotFound.ID, o.BaseKind, onion(rm.use, nil), "", "", rm.name); err != nil {
				return err
			}
			if o.BaseKind != "404" && o.BaseKind != "gnf" {
				return rig.Violf("wrong-base-handler", "%s: GET nope-zz ran %s", when, o.BaseKind)
			}
			o = rig.Serve(rm.r, rig.Req{Method: "OPTIONS", Path: "*"})
			if err := judge(rm.name+" OPTIONS *", o, "", "options", onion(rm.use, nil), "OPTIONS", "", rm.name); err != nil {
				return err
			}
			if c.Trace {
				for _, path := range []string{"nope-zz", "/a/1"} {
					o = rig.Serve(rm.r, rig.Req{Method: "TRACE", Path: path})
					if err := judge(rm.name+" TRACE "+path, o, rm.r.TraceH.ID, "trace", onion(rm.use, nil), "TRACE", "", rm.name); err != nil {
						return err
					}
				}
			}
		}
		o := rig.Serve(grp, rig.Req{Method: "GET", Path: "/zz/unmatched"})
		if err := judge("group GET /zz/unmatched", o, grp.NotFound.ID, "gnf", onion(guse, nil), "", "", ""); err != nil {
			return err
		}
	}
	st.Eval(c, nontriv, classes...)
	return nil
}

var stats = rig.NewStats("C09",
	"(later additions: Router.Clean; removals that name every method a pattern has; one program in eight opens with the life of an interior node - pattern, longer pattern below it, first emptied by name, registered again, then Use; a second group with its own Use list to which router 0 can be added as well) rapid draws a program of 1-20 steps over two routers (one standalone and optionally added to a group, one made by Group.New), with and without WithTrace: Use, Group.Use, creation of Prefix / nested Prefix / Resource / Prefix.Resource objects with 0-2 middlewares, Handle through any object with 0-2 per-route middlewares, Remove. Each middleware factory records (name, method, pattern, router, wrapped handler id) at wrap time. After every step every live handler kind (each method, HEAD, OPTIONS, 405 of every live pattern; 404, OPTIONS *, TRACE, group not-found) is invoked and the middlewares that ran, outermost first, must equal the list computed from the statement (Use most recent first, then prefix calls outermost first with later arguments outermost, then the registration's); each wrapper must have exactly one factory record with the right method / pattern / router, and no (middleware, wrapped handler, method) triple may occur twice in the whole log. Non-trivial: a Use after a registration and a registration after a Use both occurred, or prefix nesting depth >= 2; distinct by hash of the case. Later additions to the generated domain: A third of the middleware lists are heads chain[:j] of one array (what lies behind j are live values of later calls); factories alternate between a Middleware object and types.MiddlewareFunc; one program in eight opens with a chain of 3-9 nested prefixes and 2-3 sibling prefixes below the deepest. Removal lists also hold names a removal ignores by contract (\"\", a blank, HEAD, OPTIONS, lower-case names), alone or beside real names.")

func TestProp(t *testing.T) { rig.RunProp(t, stats, gen, check) }

func FuzzProp(f *testing.F) { rig.FuzzProp(f, stats, gen, check) }
