// C08 — automatic HEAD and OPTIONS behave like the methods they derive from.
package c08

import (
	"fmt"
	"net/http"
	"strconv"
	"testing"

	"github.com/issue9/mux/v9"
	"pgregory.net/rapid"

	"verif/harness/ref"
	"verif/harness/rig"
)

type HOp struct {
	Kind    string   `json:"kind"` // add remove removeAll reserved
	Pattern string   `json:"pattern"`
	Methods []string `json:"methods"`
}

type Case struct {
	// Recover: the router has WithStatusRecovery(500) and the script may end in a panic
	Recover bool         `json:"recover"`
	Trace   bool         `json:"trace"`
	Script  []rig.Action `json:"script"`
	Path    string       `json:"path"` // pattern of the scripted GET route
	History []HOp        `json:"history"`
	// Via: the requests enter through the router itself, or through a Group the router was created in / added to
	Via string `json:"via,omitempty"`
}

// build makes the router of one part and the handler the requests are sent to.
func build(env *rig.Env, via, name string, o rig.Opts) (*rig.Router, http.Handler) {
	switch via {
	case "gnew":
		g := env.NewGroup()
		opts, _ := env.Options(o)
		return &rig.Router{Router: g.New(name, nil, opts...), Env: env}, g
	case "gadd":
		g := env.NewGroup()
		r := env.NewRouter(name, o)
		g.Add(nil, r.Router)
		return r, g
	}
	r := env.NewRouter(name, o)
	return r, r
}

var (
	patterns = []string{"/p", "/p/{id}", "/q"}
	witness  = map[string]string{"/p": "/p", "/p/{id}": "/p/7", "/q": "/q"}
	hdrKeys  = []string{"X-A", "X-B", "Content-Type", "Vary", "Etag"}
	codes    = []int{200, 201, 204, 302, 404, 500}
	sizes    = []int{0, 0, 1, 5, 100, 4096}
)

func genScript(t *rapid.T) []rig.Action {
	var s []rig.Action
	for i, n := 0, rapid.IntRange(0, rig.Up(8)).Draw(t, "nact"); i < n; i++ {
		switch k := rapid.IntRange(0, 9).Draw(t, "act"); {
		case k < 2:
			s = append(s, rig.Action{Op: "set", K: rapid.SampledFrom(hdrKeys).Draw(t, "k"), V: rapid.SampledFrom([]string{"1", "2", "text/plain"}).Draw(t, "v")})
		case k < 3:
			s = append(s, rig.Action{Op: "add", K: rapid.SampledFrom(hdrKeys).Draw(t, "k"), V: rapid.SampledFrom([]string{"1", "2"}).Draw(t, "v")})
		case k < 4:
			s = append(s, rig.Action{Op: "del", K: rapid.SampledFrom(hdrKeys).Draw(t, "k")})
		case k < 6:
			s = append(s, rig.Action{Op: "status", Code: rapid.SampledFrom(codes).Draw(t, "code")})
		default:
			s = append(s, rig.Action{Op: "write", N: rapid.SampledFrom(sizes).Draw(t, "n")})
		}
	}
	return s
}

func gen(t *rapid.T) Case {
	c := Case{Trace: rapid.IntRange(0, 2).Draw(t, "trace") == 0, Script: genScript(t), Path: rapid.SampledFrom(patterns).Draw(t, "scriptPattern")}
	c.Via = rapid.SampledFrom([]string{"", "", "gnew", "gadd"}).Draw(t, "via")
	if rapid.IntRange(0, 3).Draw(t, "recover") == 0 {
		c.Recover = true
		if rapid.Bool().Draw(t, "scriptPanics") {
			c.Script = append(c.Script, rig.Action{Op: "panic", V: "x"})
		}
	}
	reserved := []string{"HEAD", "OPTIONS", "BOGUS", "get", "head", "", "Options"}
	if c.Trace {
		reserved = append(reserved, "TRACE")
	}
	for i, n := 0, rapid.IntRange(0, rig.Up(14)).Draw(t, "nhist"); i < n; i++ {
		op := HOp{Pattern: rapid.SampledFrom(patterns).Draw(t, "hp")}
		switch k := rapid.IntRange(0, 9).Draw(t, "hk"); {
		case k < 4:
			op.Kind = "add"
			if rapid.Bool().Draw(t, "addGet") {
				op.Methods = []string{"GET"}
			} else {
				op.Methods = rapid.Permutation(ref.AnyMethods).Draw(t, "addPerm")[:rapid.IntRange(1, 3).Draw(t, "addN")]
			}
		case k < 7:
			op.Kind = "remove"
			op.Methods = rapid.SliceOfN(rapid.SampledFrom([]string{"GET", "GET", "HEAD", "OPTIONS", "POST", "PUT", "DELETE", "", "BOGUS",
				"options", "head", "Options", "Head", "option\u017f", "OPT\u0131ONS", "get", " HEAD", "OPTIONS "}), 1, 3).Draw(t, "rm") // incl. spellings that are no method names at all
		case k < 8:
			op.Kind = "removeAll"
		default:
			op.Kind = "reserved"
			valid := rapid.Permutation(ref.AnyMethods).Draw(t, "resPerm")[:rapid.IntRange(0, 2).Draw(t, "resValid")]
			pos := rapid.IntRange(0, len(valid)).Draw(t, "resPos")
			bad := rapid.SampledFrom(reserved).Draw(t, "resM")
			if len(valid) > 0 && rapid.IntRange(0, 3).Draw(t, "repeatValid") == 0 {
				bad = valid[0] // the same valid method twice in one call
			}
			op.Methods = append(append(append([]string{}, valid[:pos]...), bad), valid[pos:]...)
		}
		c.History = append(c.History, op)
	}
	return c
}

func sansCL(h http.Header) http.Header {
	c := h.Clone()
	if c == nil {
		c = http.Header{}
	}
	c.Del("Content-Length")
	return c
}

func eqHeader(a, b http.Header) bool {
	if len(a) != len(b) {
		return false
	}
	for k, v := range a {
		w := b[k]
		if len(v) != len(w) {
			return false
		}
		for i := range v {
			if v[i] != w[i] {
				return false
			}
		}
	}
	return true
}

func check(c Case, st *rig.Stats) error {
	env := rig.NewEnv()
	nontriv := false
	var classes []string

	// Part A: GET vs HEAD on a scripted handler
	{
		var extra []mux.Option
		if c.Recover {
			extra = append(extra, mux.WithStatusRecovery(500))
			classes = append(classes, "router-with-status-recovery")
		}
		r, front := build(env, c.Via, "r", rig.Opts{Trace: c.Trace, Extra: extra})
		if c.Via != "" {
			classes = append(classes, "served-through-a-group:"+c.Via)
		}
		h := env.NewH(c.Script...)
		if len(c.Script) == 0 {
			h.Script = []rig.Action{} // an empty script writes nothing at all
			h.Script = append(h.Script, rig.Action{Op: "set", K: "X-Empty", V: "1"})
		}
		r.Handle(c.Path, h, nil, "GET")
		path := witness[c.Path]
		g := rig.Serve(front, rig.Req{Method: "GET", Path: path})
		hd := rig.Serve(front, rig.Req{Method: "HEAD", Path: path})
		if g.Panicked || hd.Panicked {
			return rig.Violf("panic", "GET panicked=%v HEAD panicked=%v (%v)", g.Panicked, hd.Panicked, hd.PanicVal)
		}
		if g.BaseID != h.ID || hd.BaseID != h.ID || g.BaseRuns != 1 || hd.BaseRuns != 1 {
			return rig.Violf("head-runs-get-handler-once", "GET ran %s x%d, HEAD ran %s x%d, registered %s; script %v", g.BaseID, g.BaseRuns, hd.BaseID, hd.BaseRuns, h.ID, c.Script)
		}
		if len(hd.Body) != 0 || hd.Writes != 0 {
			return rig.Violf("head-body-delivered", "HEAD delivered %d body bytes in %d writes to the client; script %v", len(hd.Body), hd.Writes, c.Script)
		}
		if g.EffStatus() != hd.EffStatus() {
			return rig.Violf("head-status", "GET status %d, HEAD status %d; script %v", g.EffStatus(), hd.EffStatus(), c.Script)
		}
		if !eqHeader(sansCL(g.Header), sansCL(hd.Header)) {
			return rig.Violf("head-headers", "final headers differ: GET %v, HEAD %v; script %v", g.Header, hd.Header, c.Script)
		}
		writes, total, zero, statusAt, firstWrite, mutBetween := 0, 0, false, -1, -1, false
		for i, a := range c.Script {
			switch a.Op {
			case "write":
				writes++
				total += a.N
				if a.N == 0 {
					zero = true
				}
				if firstWrite < 0 {
					firstWrite = i
				}
			case "status":
				if statusAt < 0 {
					statusAt = i
				}
			default:
				if firstWrite >= 0 {
					mutBetween = true
				}
			}
		}
		if statusAt >= 0 && (firstWrite < 0 || statusAt < firstWrite) {
			classes = append(classes, "explicit-WriteHeader-before-body")
			if !eqHeader(sansCL(g.HeaderAtWH), sansCL(hd.HeaderAtWH)) {
				return rig.Violf("head-headers-as-sent", "headers at WriteHeader differ: GET %v, HEAD %v; script %v", g.HeaderAtWH, hd.HeaderAtWH, c.Script)
			}
		}
		if statusAt >= 0 && firstWrite >= 0 && statusAt > firstWrite {
			classes = append(classes, "WriteHeader-after-body")
		}
		panics := len(c.Script) > 0 && c.Script[len(c.Script)-1].Op == "panic"
		if panics {
			classes = append(classes, "handler-panics-and-is-recovered")
		}
		if writes > 0 && statusAt < 0 && !panics { // a recovered panic makes the recovery code send the header itself
			classes = append(classes, "body-without-WriteHeader")
			if cl := hd.Header.Get("Content-Length"); cl != strconv.Itoa(total) {
				return rig.Violf("head-content-length", "HEAD Content-Length=%q, the handler wrote %d bytes in %d writes; script %v", cl, total, writes, c.Script)
			}
		}
		if writes >= 2 || zero || (mutBetween && writes >= 1) {
			nontriv = true
		}
	}

	// Part B: HEAD follows GET, OPTIONS is automatic, reserved and unknown methods are refused
	r, front := build(env, c.Via, "r", rig.Opts{Trace: c.Trace})
	m := ref.NewTable(c.Trace)
	getRemoved := map[string]bool{}
	for i, op := range c.History {
		h := env.NewH()
		when := fmt.Sprintf("after step %d %+v (history %+v)", i, op, c.History[:i+1])
		switch op.Kind {
		case "add":
			if _, panicked := rig.Try(func() { r.Handle(op.Pattern, h, nil, op.Methods...) }); !panicked {
				m.Handle(op.Pattern, h.ID, op.Methods)
				for _, x := range op.Methods {
					if x == "GET" && getRemoved[op.Pattern] {
						nontriv = true
						classes = append(classes, "GET-removed-and-re-added")
					}
				}
			}
		case "remove":
			had := m.Has(op.Pattern, "GET")
			r.Remove(op.Pattern, op.Methods...)
			m.Remove(op.Pattern, op.Methods...)
			if had && !m.Has(op.Pattern, "GET") {
				getRemoved[op.Pattern] = true
			}
		case "removeAll":
			if m.Has(op.Pattern, "GET") {
				getRemoved[op.Pattern] = true
			}
			r.Remove(op.Pattern)
			m.Remove(op.Pattern)
		case "reserved":
			v, panicked := rig.Try(func() { r.Handle(op.Pattern, h, nil, op.Methods...) })
			if !panicked {
				return rig.Violf("reserved-or-unknown-method-accepted", "%s: Handle(%q, %q) was accepted", when, op.Pattern, op.Methods)
			}
			if _, ok := v.(error); !ok {
				return rig.Violf("reserved-panic-value", "%s: panicked with %T %v", when, v, v)
			}
		}
		for _, p := range patterns {
			path := witness[p]
			hd := rig.Serve(front, rig.Req{Method: "HEAD", Path: path})
			op2 := rig.Serve(front, rig.Req{Method: "OPTIONS", Path: path})
			if hd.Panicked || op2.Panicked {
				return rig.Violf("panic", "%s: HEAD/OPTIONS %q panicked: %v %v", when, path, hd.PanicVal, op2.PanicVal)
			}
			live := m.R[p] != nil
			switch {
			case m.Has(p, "GET"):
				if hd.BaseKind != "route" || hd.BaseID != m.Serves(p, "GET") {
					return rig.Violf("head-not-following-get", "%s: GET is registered on %q but HEAD %q ran %s(%s)", when, p, path, hd.BaseID, hd.BaseKind)
				}
				if len(hd.Body) != 0 {
					return rig.Violf("head-body-delivered", "%s: HEAD %q delivered %d bytes", when, path, len(hd.Body))
				}
			case live:
				if hd.BaseKind != "405" {
					return rig.Violf("head-without-get", "%s: %q has no GET (methods %v) but HEAD %q ran %s(%s)", when, p, m.AllowSet(p), path, hd.BaseID, hd.BaseKind)
				}
			default:
				if hd.BaseKind != "404" && !(c.Via == "gnew" && hd.BaseKind == "gnf") { // a router made by Group.New answers 404 with the group's handler
					return rig.Violf("head-on-dead-route", "%s: %q is not registered but HEAD %q ran %s(%s)", when, p, path, hd.BaseID, hd.BaseKind)
				}
			}
			if live {
				if op2.BaseKind != "options" || op2.Pattern != p {
					return rig.Violf("options-not-automatic", "%s: %q is live (methods %v) but OPTIONS %q ran %s(%s) on %q", when, p, m.AllowSet(p), path, op2.BaseID, op2.BaseKind, op2.Pattern)
				}
			} else if op2.BaseKind != "404" && !(c.Via == "gnew" && op2.BaseKind == "gnf") {
				return rig.Violf("options-on-dead-route", "%s: %q is not registered but OPTIONS %q ran %s(%s)", when, p, path, op2.BaseID, op2.BaseKind)
			}
		}
		routes := r.Routes()
		want := m.Render()
		for p, ms := range want {
			if !rig.EqualSets(routes[p], ms) {
				return rig.Violf("routes", "%s: Routes()[%q]=%v want %v", when, p, routes[p], ms)
			}
		}
		if len(routes) != len(want) {
			return rig.Violf("routes", "%s: Routes()=%v want %v", when, routes, want)
		}
	}
	st.Eval(c, nontriv, classes...)
	return nil
}

var stats = rig.NewStats("C08",
	"rapid draws a handler script (0-8 actions: header set/add/del, WriteHeader(code), Write(n) with n from {0,1,5,100,4096}) registered for GET and served via GET and via HEAD on recording writers (the requests enter through the router itself, or through a Group the router was created in by Group.New or added to by Group.Add), and a history of 0-14 steps on three patterns (add GET / other methods, Remove incl. HEAD, OPTIONS, '' and unknown names, remove all, attempts to register HEAD / OPTIONS / TRACE-with-trace / lower-case / unknown names at a drawn position among valid ones). Oracle A: same handler run exactly once, same status, zero body bytes and zero Write calls reach the client for HEAD, final headers equal apart from Content-Length, headers as sent equal when WriteHeader precedes the body, Content-Length equals the bytes written when no WriteHeader is called. Oracle B after every step: HEAD runs GET's handler iff GET is registered (405 on a live route, 404 otherwise), OPTIONS is answered for every live pattern, reserved/unknown registrations panic with an error, Routes() equals the model. Non-trivial: script with >=2 writes, a zero-length write or a header mutation after a write; or GET removed and re-added; distinct by hash of the case. Later additions to the generated domain: Removal lists also hold lower-case, mixed-case, padded and long-s / dotless-i spellings of HEAD and OPTIONS (ignored by contract).",
	"the script never touches Content-Length itself",
	"headers set after the first body write are compared on the final map only (net/http would already have sent the header for GET)")

func TestProp(t *testing.T) { rig.RunProp(t, stats, gen, check) }

func FuzzProp(f *testing.F) { rig.FuzzProp(f, stats, gen, check) }
