// C02 — route resolution follows the documented left-to-right kind priority.
package c02

import (
	"fmt"
	"strings"
	"testing"

	"pgregory.net/rapid"

	"verif/harness/pat"
	"verif/harness/ref"
	"verif/harness/rig"
)

type Case struct {
	Icpt     string   `json:"icpt"`
	Patterns []string `json:"patterns"` // registration order of router 1
	Order2   []int    `json:"order2"`   // registration order of router 2 (indices into Patterns)
	Paths    []string `json:"paths"`
	// Refused are registrations that must be refused for their method list alone (reserved, unknown or repeated
	// method) or as duplicates; they are attempted just before the At-th registration of either order and must
	// leave resolution exactly as the reference computes it from the accepted patterns.
	Refused []Refusal `json:"refused,omitempty"`
}

type Refusal struct {
	At      int      `json:"at"`
	Pattern string   `json:"pattern"`
	Methods []string `json:"methods"`
	Dup     bool     `json:"dup,omitempty"` // Pattern is registered (GET) at that moment or not at all: GET again is refused iff it is live
}

var badLists = [][]string{{"HEAD"}, {"OPTIONS"}, {"BOGUS"}, {"get"}, {"POST", "POST"}, {"POST", "PUT", "HEAD"}, {"PUT", "DELETE", "PUT"}, {""}}

func gen(t *rapid.T) Case {
	cfg := pat.GenCfg(t, false)
	n := rapid.IntRange(1, rig.Up(14)).Draw(t, "npat")
	nref := 0
	if rapid.IntRange(0, 2).Draw(t, "withRefusals") == 0 {
		nref = rapid.IntRange(1, 4).Draw(t, "nrefused")
	}
	pool := pat.GenPool(t, cfg, n+nref)
	var extra []string
	if len(pool) > n {
		pool, extra = pool[:n], pool[n:]
	}
	c := Case{Icpt: cfg.IcptName, Patterns: pool}
	for _, p := range extra {
		c.Refused = append(c.Refused, Refusal{At: rapid.IntRange(0, len(pool)).Draw(t, "refAt"), Pattern: p,
			Methods: rapid.SampledFrom(badLists).Draw(t, "refMethods")})
	}
	if nref > 0 && rapid.Bool().Draw(t, "dupToo") {
		c.Refused = append(c.Refused, Refusal{At: rapid.IntRange(0, len(pool)).Draw(t, "dupAt"),
			Pattern: rapid.SampledFrom(pool).Draw(t, "dupPattern"), Methods: []string{"GET"}, Dup: true})
	}
	c.Order2 = rapid.Permutation(seq(len(pool))).Draw(t, "order2")
	var parsed []*pat.Pattern
	for _, p := range pool {
		parsed = append(parsed, pat.MustParse(p, cfg.Icpt))
	}
	np := rapid.IntRange(1, 6).Draw(t, "npaths")
	for i := 0; i < np; i++ {
		c.Paths = append(c.Paths, pat.GenPath(t, parsed))
	}
	return c
}

func seq(n int) []int {
	s := make([]int, n)
	for i := range s {
		s[i] = i
	}
	return s
}

// build registers the patterns in the given order and returns the router and
// the accepted patterns.
func build(env *rig.Env, icpt pat.Icpt, order []string, refused []Refusal) (*rig.Router, []*pat.Pattern, map[string]string, error) {
	r := env.NewRouter("r", rig.Opts{Icpt: icpt})
	var acc []*pat.Pattern
	ids := map[string]string{}
	refuse := func(at int) error {
		for _, rf := range refused {
			if rf.At != at {
				continue
			}
			h := env.NewH()
			_, panicked := rig.Try(func() { r.Handle(rf.Pattern, h, nil, rf.Methods...) })
			if rf.Dup {
				// the same pattern once more: refused iff it is live; otherwise it simply joins the table
				if !panicked {
					if ids[rf.Pattern] != "" {
						return rig.Violf("duplicate-accepted", "Handle(%q, GET) was accepted although the route is live", rf.Pattern)
					}
					acc = append(acc, pat.MustParse(rf.Pattern, icpt))
					ids[rf.Pattern] = h.ID
				}
				continue
			}
			if !panicked {
				return rig.Violf("invalid-methods-accepted", "Handle(%q, %q) was accepted", rf.Pattern, rf.Methods)
			}
		}
		return nil
	}
	for i, p := range append(append([]string{}, order...), "") {
		if err := refuse(i); err != nil {
			return nil, nil, nil, err
		}
		if i == len(order) {
			break
		}
		h := env.NewH()
		if _, panicked := rig.Try(func() { r.Handle(p, h, nil, "GET") }); !panicked {
			acc = append(acc, pat.MustParse(p, icpt))
			ids[p] = h.ID
		}
	}
	return r, acc, ids, nil
}

func shape(acc []*pat.Pattern) (classes []string) {
	// children per prefix
	type kids struct {
		lits   map[byte]bool
		tokens map[string]bool
		kinds  map[pat.Kind]bool
	}
	m := map[string]*kids{}
	for _, p := range acc {
		key := ""
		for i, a := range p.Atoms {
			k := m[key]
			if k == nil {
				k = &kids{map[byte]bool{}, map[string]bool{}, map[pat.Kind]bool{}}
				m[key] = k
			}
			if a.IsLit() {
				k.lits[a.B] = true
				key += string(a.B)
			} else {
				k.tokens[a.P.Token] = true
				k.kinds[a.P.Kind] = true
				key += a.P.Token
				if a.P.Kind == pat.Regex && i+1 < len(p.Atoms) && p.Atoms[i+1].B == '.' {
					classes = append(classes, "dot-after-regexp")
				}
			}
		}
	}
	seen := map[string]bool{}
	for _, k := range m {
		if len(k.lits)+len(k.tokens) >= 5 && len(k.lits) >= 1 {
			seen["first-byte-index-active"] = true
			if len(k.tokens) > 0 {
				seen["index-plus-param-sibling"] = true
			}
		}
		if len(k.kinds) == 3 {
			seen["three-kinds-one-position"] = true
		}
		for a := range k.tokens {
			for b := range k.tokens {
				if a != b && strings.HasPrefix(b[:len(b)-1], a[:len(a)-1]) {
					seen["token-prefix-of-sibling-token"] = true
				}
			}
		}
	}
	for k := range seen {
		classes = append(classes, k)
	}
	return classes
}

func check(c Case, st *rig.Stats) error {
	icpt := pat.IcptSets[c.Icpt]
	env := rig.NewEnv()
	var order2 []string
	for _, i := range c.Order2 {
		order2 = append(order2, c.Patterns[i])
	}
	type sub struct {
		name string
		r    *rig.Router
		acc  []*pat.Pattern
		ids  map[string]string
	}
	var subs []sub
	for i, order := range [][]string{c.Patterns, order2} {
		r, acc, ids, err := build(env, icpt, order, c.Refused)
		if err != nil {
			return err
		}
		subs = append(subs, sub{fmt.Sprintf("order%d", i+1), r, acc, ids})
	}
	nontriv := false
	classes := shape(subs[0].acc)
	if len(c.Refused) > 0 {
		classes = append(classes, "with-refused-registrations")
	}
	for _, s := range subs {
		rs := &ref.Resolver{Routes: s.acc}
		for _, path := range c.Paths {
			if path == "" || path == "*" {
				classes = append(classes, "skipped-special-path")
				continue
			}
			adm, nfOK := rs.Admissible(path)
			if rs.Decisions > 0 {
				nontriv = true
			}
			if rs.Ambiguous {
				classes = append(classes, "regexp-ambiguous")
			}
			if len(adm) > 1 {
				classes = append(classes, "admissible-set>1")
			}
			o := rig.Serve(s.r, rig.Req{Method: "GET", Path: path})
			switch {
			case o.Panicked:
				return rig.Violf("panic", "%s: GET %q panicked: %v (table %v)", s.name, path, o.PanicVal, srcs(s.acc))
			case o.BaseKind == "404":
				classes = append(classes, "answer-404")
				if !nfOK {
					return rig.Violf("404-but-route-exists", "%s: GET %q answered 404, the procedure finds %v (table %v)", s.name, path, adm, srcs(s.acc))
				}
			case o.BaseKind == "route":
				classes = append(classes, "answer-route")
				ok := false
				for _, a := range adm {
					if a.Pattern == o.Pattern && rig.EqualParams(a.Params, o.Params) {
						ok = true
					}
				}
				if !ok {
					return rig.Violf("not-admissible", "%s: GET %q answered by %q with %v; admissible: %v (table %v)", s.name, path, o.Pattern, o.Params, adm, srcs(s.acc))
				}
				if s.ids[o.Pattern] != o.BaseID {
					return rig.Violf("foreign-handler", "%s: GET %q reports route %q but ran handler %s, registered %s", s.name, path, o.Pattern, o.BaseID, s.ids[o.Pattern])
				}
			default:
				return rig.Violf("unexpected-kind", "%s: GET %q answered by a %q handler (%s), table is GET-only", s.name, path, o.BaseKind, o.HandlerID)
			}
		}
	}
	st.Eval(c, nontriv, classes...)
	return nil
}

func srcs(ps []*pat.Pattern) []string {
	var out []string
	for _, p := range ps {
		out = append(out, p.Src)
	}
	return out
}

var stats = rig.NewStats("C02",
	"rapid draws an add-only table of 1-14 well-formed patterns (shared prefixes, bursts of >=5 literal siblings, competing parameter kinds, token-prefix names), two registration orders, in a third of the cases interleaved with registrations that must be refused for their method list or as duplicates (and must leave no trace in resolution), and 1-6 paths derived from the patterns (values from the literal and value alphabets, one-byte mutations); every answer must lie in the admissible set of the tree-free reference resolver, 404 iff that set is empty. Non-trivial: the reference took at least one decision on some path (a literal branch failed and fell back, >=2 sibling groups of one kind, or a kind failed before a lower one was tried); distinct by hash of the case. Later additions to the generated domain: A third of the tables interleave registrations that must be refused (reserved / unknown / repeated method, duplicate) at drawn positions of either order - they must leave no trace in resolution; one pool in twelve holds a structure of unusual size (11-45 children below the root, a prefix or a parameter that has a rival of another kind; dozens of regexp siblings; 9-34-parameter routes). Values and literal text include the odd-text alphabet described for C01 (case-mapping outliers, invalid UTF-8, line breaks, '%').",
	"regexp rules are one character class under a quantifier (no braces, alternations or lazy quantifiers)",
	"where greedy and shortest regexp captures differ both are admissible (the statement says shortest, Go regexps are leftmost-first)")

func TestProp(t *testing.T) { rig.RunProp(t, stats, gen, check) }

func FuzzProp(f *testing.F) { rig.FuzzProp(f, stats, gen, check) }
