// Package pat is the harness' own, independent model of the route pattern
// grammar of issue9/mux: a parser that never calls the router's syntax package,
// a conformance matcher (does this path equal this pattern under these values?)
// and a witness builder. Nothing here builds a tree.
package pat

import (
	"errors"
	"fmt"
	"regexp"
	"sort"
	"strings"
)

// Kind of an atom. The numeric order of the three parameter kinds is the
// documented priority: interceptor before regexp before named.
type Kind int

const (
	Lit Kind = iota
	Inter
	Regex
	Named
)

func (k Kind) String() string { return [...]string{"lit", "inter", "regexp", "named"}[k] }

// Param is one {name:rule} token.
type Param struct {
	Token  string // the full token text including braces
	Name   string // without the leading '-'
	Ignore bool
	Rule   string
	Kind   Kind

	full *regexp.Regexp    // ^(?:rule)$ for Regex
	fn   func(string) bool // for Inter
}

// Atom is one literal byte or one parameter.
type Atom struct {
	B byte
	P *Param
}

func (a Atom) IsLit() bool { return a.P == nil }

// Same reports whether two atoms are the same literal byte or the same token text.
func (a Atom) Same(b Atom) bool {
	if a.P == nil || b.P == nil {
		return a.P == nil && b.P == nil && a.B == b.B
	}
	return a.P.Token == b.P.Token
}

// Rank is 0 for literals and 1..3 for the parameter kinds in priority order.
func (a Atom) Rank() int {
	if a.P == nil {
		return 0
	}
	return int(a.P.Kind)
}

// Icpt maps a rule text to the name of the interceptor function bound to it
// ("digit", "word", "any", "cust").
type Icpt map[string]string

// Funcs are the harness' own implementations of the interceptor functions.
var Funcs = map[string]func(string) bool{
	"digit": func(s string) bool {
		for i := 0; i < len(s); i++ {
			if s[i] < '0' || s[i] > '9' {
				return false
			}
		}
		return len(s) > 0
	},
	"word": func(s string) bool {
		for i := 0; i < len(s); i++ {
			c := s[i]
			if !(c >= '0' && c <= '9' || c >= 'a' && c <= 'z' || c >= 'A' && c <= 'Z') {
				return false
			}
		}
		return len(s) > 0
	},
	"any": func(s string) bool { return len(s) > 0 },
	// cust: non-empty, at most three bytes, no '/'
	"cust": func(s string) bool { return len(s) > 0 && len(s) <= 3 && !strings.Contains(s, "/") },
}

// Fault classes reported by Parse.
var (
	ErrEmpty      = errors.New("empty pattern")
	ErrEmptyName  = errors.New("empty parameter name")
	ErrAdjacent   = errors.New("adjacent parameters")
	ErrDuplicate  = errors.New("duplicate parameter name")
	ErrBadRegexp  = errors.New("regexp does not compile")
	ErrUnbalanced = errors.New("unbalanced braces")
	ErrGroupName  = errors.New("name of a regexp parameter is not usable as a capture name")
)

// Pattern is a parsed pattern.
type Pattern struct {
	Src   string
	Atoms []Atom
}

// Parse is the independent parser: scan for '{' ... first '}', split the inside at
// the first ':', strip one leading '-'. The kind of a token with a rule is decided
// by the interceptor table.
func Parse(src string, ic Icpt) (*Pattern, error) {
	if src == "" {
		return nil, ErrEmpty
	}
	p := &Pattern{Src: src}
	names := map[string]bool{}
	lastParam := false
	for i := 0; i < len(src); {
		c := src[i]
		if c == '}' {
			return nil, ErrUnbalanced
		}
		if c != '{' {
			p.Atoms = append(p.Atoms, Atom{B: c})
			lastParam = false
			i++
			continue
		}
		end := strings.IndexByte(src[i:], '}')
		if end < 0 {
			return nil, ErrUnbalanced
		}
		end += i
		inner := src[i+1 : end]
		if strings.IndexByte(inner, '{') >= 0 {
			return nil, ErrUnbalanced
		}
		if lastParam {
			return nil, ErrAdjacent
		}
		name, rule := inner, ""
		if k := strings.IndexByte(inner, ':'); k >= 0 {
			name, rule = inner[:k], inner[k+1:]
		}
		pm := &Param{Token: src[i : end+1], Rule: rule}
		if strings.HasPrefix(name, "-") {
			pm.Ignore = true
			name = name[1:]
		}
		if name == "" {
			return nil, ErrEmptyName
		}
		pm.Name = name
		if names[name] {
			return nil, ErrDuplicate
		}
		names[name] = true
		switch {
		case rule == "":
			pm.Kind = Named
		case ic[rule] != "":
			pm.Kind = Inter
			pm.fn = Funcs[ic[rule]]
			if pm.fn == nil {
				return nil, fmt.Errorf("harness: unknown interceptor function %q", ic[rule])
			}
		default:
			pm.Kind = Regex
			// the value is captured by name: the name has to be one the regexp syntax accepts for a group
			if _, err := regexp.Compile("(?P<" + name + ">x)"); err != nil && !pm.Ignore {
				return nil, ErrGroupName
			}
			if _, err := regexp.Compile(rule); err != nil { // the rule itself must be a regexp ("a)|(b" is not)
				return nil, ErrBadRegexp
			}
			re, err := regexp.Compile("^(?:" + rule + ")$")
			if err != nil {
				return nil, ErrBadRegexp
			}
			pm.full = re
		}
		p.Atoms = append(p.Atoms, Atom{P: pm})
		lastParam = true
		i = end + 1
	}
	return p, nil
}

// MustParse panics on a harness-side mistake.
func MustParse(src string, ic Icpt) *Pattern {
	p, err := Parse(src, ic)
	if err != nil {
		panic(fmt.Sprintf("harness generated an ill-formed pattern %q: %v", src, err))
	}
	return p
}

// Accepts reports whether v satisfies the constraint over its whole length.
func (pm *Param) Accepts(v string) bool {
	switch pm.Kind {
	case Named:
		return true
	case Inter:
		return pm.fn(v)
	default:
		return pm.full.MatchString(v)
	}
}

// Capturing returns the names of the capturing (non '-') parameters, sorted.
func (p *Pattern) Capturing() []string {
	var ns []string
	for _, a := range p.Atoms {
		if a.P != nil && !a.P.Ignore {
			ns = append(ns, a.P.Name)
		}
	}
	sort.Strings(ns)
	return ns
}

// NParams is the number of parameter atoms (capturing or not).
func (p *Pattern) NParams() int {
	n := 0
	for _, a := range p.Atoms {
		if a.P != nil {
			n++
		}
	}
	return n
}

// HasIgnored reports whether the pattern has a '-' parameter.
func (p *Pattern) HasIgnored() bool {
	for _, a := range p.Atoms {
		if a.P != nil && a.P.Ignore {
			return true
		}
	}
	return false
}

// LitRun returns the literal bytes starting at atom index i up to the next
// parameter or the end.
func (p *Pattern) LitRun(i int) string {
	var b []byte
	for ; i < len(p.Atoms) && p.Atoms[i].P == nil; i++ {
		b = append(b, p.Atoms[i].B)
	}
	return string(b)
}

// Conforms: path equals the pattern with every capturing parameter replaced by
// params[name]; every value satisfies its constraint over its whole length;
// ignored parameters are existentially quantified; params has exactly the
// capturing names.
func (p *Pattern) Conforms(path string, params map[string]string) bool {
	if len(params) != len(p.Capturing()) {
		return false
	}
	return p.conf(0, path, params, map[[2]int]bool{})
}

func (p *Pattern) conf(i int, rest string, params map[string]string, dead map[[2]int]bool) bool {
	start := [2]int{i, len(rest)}
	if dead[start] {
		return false
	}
	ok := p.conf1(i, rest, params, dead)
	if !ok {
		dead[start] = true
	}
	return ok
}

func (p *Pattern) conf1(i int, rest string, params map[string]string, dead map[[2]int]bool) bool {
	for ; i < len(p.Atoms); i++ {
		a := p.Atoms[i]
		if a.P == nil {
			if rest == "" || rest[0] != a.B {
				return false
			}
			rest = rest[1:]
			continue
		}
		if a.P.Ignore {
			for l := 0; l <= len(rest); l++ {
				if a.P.Accepts(rest[:l]) && p.conf(i+1, rest[l:], params, dead) {
					return true
				}
			}
			return false
		}
		v, ok := params[a.P.Name]
		if !ok || !strings.HasPrefix(rest, v) || !a.P.Accepts(v) {
			return false
		}
		rest = rest[len(v):]
	}
	return rest == ""
}

// Matches reports whether some assignment of values makes the pattern equal to path.
func (p *Pattern) Matches(path string) bool { return p.matches(0, path, map[[2]int]bool{}) }

// dead memoises the (atom index, remaining length) pairs from which no assignment exists: rest is always a suffix of
// the path, so its length identifies it, and the search stays polynomial for routes with dozens of parameters.
func (p *Pattern) matches(i int, rest string, dead map[[2]int]bool) bool {
	start := [2]int{i, len(rest)}
	if dead[start] {
		return false
	}
	ok := p.matches1(i, rest, dead)
	if !ok {
		dead[start] = true
	}
	return ok
}

func (p *Pattern) matches1(i int, rest string, dead map[[2]int]bool) bool {
	for ; i < len(p.Atoms); i++ {
		a := p.Atoms[i]
		if a.P == nil {
			if rest == "" || rest[0] != a.B {
				return false
			}
			rest = rest[1:]
			continue
		}
		for l := 0; l <= len(rest); l++ {
			if a.P.Accepts(rest[:l]) && p.matches(i+1, rest[l:], dead) {
				return true
			}
		}
		return false
	}
	return rest == ""
}

// simpleCandidates are parameter values that share no byte with the literal
// alphabet of the generators.
var simpleCandidates = []string{"x", "y", "z", "7", "8", "9", "xy", "78", "z9", "9z", "x7y", "789"}

// Simple returns the simple values accepted by the parameter.
func (pm *Param) Simple() []string {
	var out []string
	for _, c := range simpleCandidates {
		if pm.Accepts(c) {
			out = append(out, c)
		}
	}
	return out
}

// Witness builds the path made of the pattern's literals and, per parameter, a
// simple value chosen by variant. ok is false when some parameter accepts no
// simple value.
func (p *Pattern) Witness(variant int) (path string, params map[string]string, ok bool) {
	var b strings.Builder
	params = map[string]string{}
	k := 0
	for _, a := range p.Atoms {
		if a.P == nil {
			b.WriteByte(a.B)
			continue
		}
		s := a.P.Simple()
		if len(s) == 0 {
			return "", nil, false
		}
		if variant < 0 {
			variant = -variant
		}
		v := s[(variant+k*5)%len(s)]
		k++
		b.WriteString(v)
		if !a.P.Ignore {
			params[a.P.Name] = v
		}
	}
	return b.String(), params, true
}

// Subst is the harness' own substitution for reverse URL building: every token
// replaced by params[name]; missing reports the first missing name.
func (p *Pattern) Subst(params map[string]string) (out string, missing string, ok bool) {
	var b strings.Builder
	for _, a := range p.Atoms {
		if a.P == nil {
			b.WriteByte(a.B)
			continue
		}
		v, found := params[a.P.Name]
		if !found {
			return "", a.P.Name, false
		}
		b.WriteString(v)
	}
	return b.String(), "", true
}

// NameEquivalent: the two patterns are identical up to parameter names and the
// '-' flag (same literals, same kind-and-rule at every parameter position).
func NameEquivalent(a, b *Pattern) bool {
	if len(a.Atoms) != len(b.Atoms) {
		return false
	}
	for i := range a.Atoms {
		x, y := a.Atoms[i], b.Atoms[i]
		if (x.P == nil) != (y.P == nil) {
			return false
		}
		if x.P == nil {
			if x.B != y.B {
				return false
			}
			continue
		}
		if x.P.Kind != y.P.Kind || x.P.Rule != y.P.Rule {
			return false
		}
	}
	return true
}

// FirstDiff returns the index of the first atom at which the two patterns
// differ, or the length of the shorter one.
func FirstDiff(a, b *Pattern) int {
	i := 0
	for i < len(a.Atoms) && i < len(b.Atoms) && a.Atoms[i].Same(b.Atoms[i]) {
		i++
	}
	return i
}
