package pat

import (
	"sort"
	"strconv"
	"strings"

	"pgregory.net/rapid"
)

// IcptSets are the interceptor configurations the generators choose from.
var IcptSets = map[string]Icpt{
	"none":    {},
	"bundled": {"digit": "digit", "word": "word", "any": "any"},
	"rx":      {"digit": "digit", `\d+`: "digit", `\w+`: "word"},
	"cust":    {"cust": "cust", "any": "any"},
	// rule names that differ in letter case only are different names
	"twins": {"num": "digit", "Num": "word", "NUM": "any", "digit": "digit"},
}

var IcptNames = []string{"none", "bundled", "rx", "cust", "twins"}

// Cfg parametrises the pattern generators.
type Cfg struct {
	IcptName string
	Icpt     Icpt
	// Witness restricts pools to patterns that match their own witness under the
	// segment-by-segment semantics: every rule accepts simple values, and the
	// literal right after a regexp parameter never starts with a byte of the
	// rule's class.
	Witness bool
	// Alt adds top-level alternations to the rule pool. Only for checks whose oracle is the
	// conformance matcher (C01): the resolver-based oracles exclude alternations because
	// leftmost-first and whole-length matching then disagree.
	Alt bool
}

func GenCfg(t *rapid.T, witness bool) Cfg {
	n := rapid.SampledFrom(IcptNames).Draw(t, "icpt")
	return Cfg{IcptName: n, Icpt: IcptSets[n], Witness: witness}
}

func CfgFor(name string, witness bool) Cfg {
	return Cfg{IcptName: name, Icpt: IcptSets[name], Witness: witness}
}

var names = []string{"x", "x2", "id", "idx", "y", "n"}

var litChunks = []string{
	"/", "/a", "/b", "/ab", "/a/", "a", "b", "aa", "c", "/c", "-", ".", ".html", "/1", "1",
	"d", "/d", "e", "/e", "f", "/f", "g", "/g", "/中", "/a/b", "//", "/-", "%", "/50%", "%d", "/%s/",
	"/你", "中", "你", // 中 and 你 share their first byte (E4): literal text that diverges inside a character
}

var burstBytes = []string{"a", "b", "c", "d", "e", "f", "g", "1", "-", ".", "中", "你"}

// wideBytes: first bytes for bursts of a dozen to several dozen siblings (disjoint from the value alphabet x y z 7 8 9)
var wideBytes = func() []string {
	var out []string
	for _, c := range "abcdefghijklmnopqrstuvw123456-._~ABCDEFGHIJKLMNOPQRSTUVW" {
		out = append(out, string(c))
	}
	return append(out, "中", "你", "é")
}()

// genScale adds structures of a size beyond the usual to the pool (one pool in a dozen gets one of them):
// a node with a dozen to several dozen literal children (below the root, below a pool pattern's prefix, or below a
// parameter), several dozen regexp siblings that differ in the byte behind the token (each is tried and given up in
// turn), or routes with nine to thirty-four parameters that share all but their tail, next to a catch-all.
func genScale(t *rapid.T, cfg Cfg, pool []string, add func(string)) {
	pick := func(k int, label string) []string {
		perm := rapid.Permutation(wideBytes).Draw(t, label)
		return perm[:k]
	}
	switch rapid.IntRange(0, 2).Draw(t, "scaleKind") {
	case 0:
		b := newBuilder(cfg)
		rivalBase := ""
		switch rapid.IntRange(0, 2).Draw(t, "wideUnder") {
		case 0:
			b.sb.WriteString("/")
		case 1:
			b.sb.WriteString(rapid.SampledFrom([]string{"/w/", "/a/b/", "w"}).Draw(t, "widePrefix"))
		default:
			// below a parameter; and a parameter of another kind beside it that leads to some of the same children, so
			// that the kind order at the parameter's position decides
			pre := rapid.SampledFrom([]string{"/", "/u/", ""}).Draw(t, "wideParamPrefix")
			b.sb.WriteString(pre)
			b.addParam(t)
			if b.lastParam.Kind == Named {
				rivalBase = pre + `{q:\d+}/`
			} else {
				rivalBase = pre + "{q}/"
			}
			b.sb.WriteString("/")
			b.lastParam = nil
		}
		base := b.sb.String()
		chosen := pick(rapid.IntRange(11, 45).Draw(t, "wideK"), "wideBytes")
		for _, c := range chosen {
			s := base + c
			if rapid.IntRange(0, 5).Draw(t, "wideTail") == 0 {
				s += rapid.SampledFrom([]string{"/", "/{q3}", "1", ".html"}).Draw(t, "wideTailText")
			}
			add(s)
		}
		if rivalBase != "" {
			for _, c := range chosen[:rapid.IntRange(1, 3).Draw(t, "wideRivalKids")] {
				add(rivalBase + c)
			}
		}
		if rapid.Bool().Draw(t, "wideRival") {
			// something of lower priority beside them: a parameter sibling of the wide node
			add(base + rapid.SampledFrom([]string{"{q4}", `{q4:\d+}`, "{-q4}", `{q4:\d+}/{q2}`}).Draw(t, "wideRivalTok"))
		}
	case 1:
		base := rapid.SampledFrom([]string{"/", "/r/", "", "/a/{n}/"}).Draw(t, "rxPrefix")
		tok := rapid.SampledFrom([]string{`{x:\d+}`, `{x:[x-z7-9]+}`, `{-x:\d+}`}).Draw(t, "rxTok")
		for _, c := range pick(rapid.IntRange(12, 45).Draw(t, "rxK"), "rxBytes") {
			if c[0] >= '0' && c[0] <= '9' {
				continue // the class-disjoint follow rule
			}
			add(base + tok + c)
		}
		add(base + "{rest}")
	default:
		k := rapid.IntRange(9, 34).Draw(t, "longK")
		var sb strings.Builder
		sep := rapid.SampledFrom([]string{"/", "-", "/s/"}).Draw(t, "longSep")
		sb.WriteString("/")
		for i := 0; i < k; i++ {
			if i > 0 {
				sb.WriteString(sep)
			}
			if i%3 == 1 {
				sb.WriteString("{p" + strconv.Itoa(i) + `:\d+}`)
			} else {
				sb.WriteString("{p" + strconv.Itoa(i) + "}")
			}
		}
		long := sb.String()
		add(long + "/end")
		add(long + "/other")
		if rapid.Bool().Draw(t, "longCatchAll") {
			add("/{path}")
		}
		if rapid.Bool().Draw(t, "longShort") {
			add("/{p0}" + sep + `{p1:\d+}`)
		}
	}
}

// regexp rules: one character class under a quantifier, no braces.
var rulesWitness = []string{`\d+`, `\w+`, `[^/]+`, `[x-z7-9]+`, `\d*`}
var rulesExtra = []string{`[ab]+`, `[a-b1][a-b1]`, `[a-c]*`, `[0-9]+`, `.+`, `\d.\d`}
var rulesAlt = []string{`img|doc`, `a|b1`, `x|yz|7`, `a|ab`, `\d+?`} // incl. an alternative that is a prefix of a later one, and a lazy quantifier

// classAccepts: does the class of the (vetted) rule accept byte c?
func classAccepts(rule string, c byte) bool {
	switch rule {
	case `\d+`, `\d*`, `[0-9]+`:
		return c >= '0' && c <= '9'
	case `\w+`:
		return c == '_' || c >= '0' && c <= '9' || c >= 'a' && c <= 'z' || c >= 'A' && c <= 'Z'
	case `[^/]+`:
		return c != '/'
	case `[x-z7-9]+`:
		return c >= 'x' && c <= 'z' || c >= '7' && c <= '9'
	case `[ab]+`:
		return c == 'a' || c == 'b'
	case `[a-b1][a-b1]`:
		return c == 'a' || c == 'b' || c == '1'
	case `[a-c]*`:
		return c >= 'a' && c <= 'c'
	case `.+`:
		return c != '\n'
	case `\d.\d`:
		return c >= '0' && c <= '9'
	}
	return true
}

type builder struct {
	cfg       Cfg
	used      map[string]bool
	sb        strings.Builder
	lastParam *Param // the parameter the text currently ends with, if any
}

func newBuilder(cfg Cfg) *builder { return &builder{cfg: cfg, used: map[string]bool{}} }

func (b *builder) seed(prefix *Pattern, natoms int) {
	for i := 0; i < natoms; i++ {
		a := prefix.Atoms[i]
		if a.P == nil {
			b.sb.WriteByte(a.B)
			b.lastParam = nil
		} else {
			b.sb.WriteString(a.P.Token)
			b.used[a.P.Name] = true
			b.lastParam = a.P
		}
	}
}

func (b *builder) canParam() bool {
	if b.lastParam != nil {
		return false
	}
	for _, n := range names {
		if !b.used[n] {
			return true
		}
	}
	return false
}

func (b *builder) litOK(chunk string) bool {
	if b.lastParam == nil || !b.cfg.Witness || b.lastParam.Kind != Regex {
		return true
	}
	return !classAccepts(b.lastParam.Rule, chunk[0])
}

func (b *builder) addLit(t *rapid.T, pool []string) {
	var ok []string
	for _, c := range pool {
		if b.litOK(c) {
			ok = append(ok, c)
		}
	}
	if len(ok) == 0 {
		ok = []string{"/"}
	}
	c := rapid.SampledFrom(ok).Draw(t, "lit")
	b.sb.WriteString(c)
	b.lastParam = nil
}

func (b *builder) addParam(t *rapid.T) {
	var free []string
	for _, n := range names {
		if !b.used[n] {
			free = append(free, n)
		}
	}
	name := rapid.SampledFrom(free).Draw(t, "name")
	b.used[name] = true
	ignore := rapid.IntRange(0, 5).Draw(t, "ignore") == 0
	kind := rapid.IntRange(0, 9).Draw(t, "kind")
	rule := ""
	switch {
	case kind < 4: // named
	case kind < 7 || len(b.cfg.Icpt) == 0: // regexp
		pool := rulesWitness
		if !b.cfg.Witness {
			pool = append(append([]string{}, rulesWitness...), rulesExtra...)
		}
		if b.cfg.Alt {
			pool = append(append([]string{}, pool...), rulesAlt...)
		}
		var ok []string
		for _, r := range pool {
			if b.cfg.Icpt[r] == "" { // an intercepted rule text is an interceptor, drawn below
				ok = append(ok, r)
			}
		}
		rule = rapid.SampledFrom(ok).Draw(t, "rule")
	default:
		var keys []string
		for k := range b.cfg.Icpt {
			keys = append(keys, k)
		}
		sort.Strings(keys)
		rule = rapid.SampledFrom(keys).Draw(t, "irule")
	}
	tok := "{"
	if ignore {
		tok += "-"
	}
	tok += name
	if rule != "" {
		tok += ":" + rule
	} else if rapid.IntRange(0, 9).Draw(t, "emptyRule") == 0 {
		tok += ":" // {name:} - the other spelling of a parameter without a rule
	}
	tok += "}"
	b.sb.WriteString(tok)
	p := MustParse(tok, b.cfg.Icpt)
	b.lastParam = p.Atoms[0].P
}

func (b *builder) extend(t *rapid.T, chunks int) {
	for i := 0; i < chunks; i++ {
		if b.canParam() && rapid.IntRange(0, 9).Draw(t, "isParam") < 5 {
			b.addParam(t)
		} else {
			b.addLit(t, litChunks)
		}
	}
}

// GenPattern draws one well-formed pattern.
func GenPattern(t *rapid.T, cfg Cfg) string {
	b := newBuilder(cfg)
	if rapid.IntRange(0, 19).Draw(t, "leadParam") == 0 {
		// no leading literal at all: the pattern opens with a parameter (what every wildcard domain does)
		b.addParam(t)
		b.extend(t, rapid.IntRange(1, 3).Draw(t, "chunksP"))
		return b.sb.String()
	}
	if rapid.IntRange(0, 9).Draw(t, "lead") < 8 {
		b.sb.WriteString("/")
		if rapid.Bool().Draw(t, "leadMore") {
			b.addLit(t, []string{"a", "b", "ab", "a/", "c/", "1", "d", "e"})
		}
	} else {
		b.addLit(t, []string{"a", "b", "c", "-", ".", "1"})
	}
	b.extend(t, rapid.IntRange(0, 4).Draw(t, "chunks"))
	return b.sb.String()
}

// GenPool draws n (or a few more) distinct well-formed patterns that share
// prefixes, split each other and include bursts of literal siblings.
func GenPool(t *rapid.T, cfg Cfg, n int) []string {
	seen := map[string]bool{}
	var pool []string
	add := func(s string) {
		if s == "" || seen[s] {
			return
		}
		if _, err := Parse(s, cfg.Icpt); err != nil {
			return
		}
		seen[s] = true
		pool = append(pool, s)
	}
	if rapid.IntRange(0, 11).Draw(t, "scale") == 0 {
		genScale(t, cfg, pool, add)
	}
	for tries := 0; len(pool) < n && tries < 4*n+8; tries++ {
		mode := rapid.IntRange(0, 11).Draw(t, "poolMode")
		switch {
		case mode == 11 && len(pool) > 0:
			// a burst of parameter siblings: five to seven different parameters continue the same prefix, each
			// with a tail of its own - a node with many children of which none (or hardly any) is literal
			base := MustParse(rapid.SampledFrom(pool).Draw(t, "pbase"), cfg.Icpt)
			cut := runeCut(base, rapid.IntRange(1, len(base.Atoms)).Draw(t, "pcut"))
			if rapid.Bool().Draw(t, "pburstRoot") {
				base, cut = MustParse("/", cfg.Icpt), 1
			}
			tails := []string{"", "/", "/a", ".html", "-", "/b", ".x"}
			off := rapid.IntRange(0, len(tails)-1).Draw(t, "ptailOff")
			for j, k := 0, rapid.IntRange(5, 7).Draw(t, "pburstK"); j < k; j++ {
				b := newBuilder(cfg)
				b.seed(base, cut)
				if !b.canParam() {
					break
				}
				b.addParam(t)
				if tail := tails[(off+j)%len(tails)]; tail != "" && b.litOK(tail) {
					b.sb.WriteString(tail)
					b.lastParam = nil
				}
				add(b.sb.String())
			}
		case mode == 10 && len(pool) > 0:
			// competing kinds at one position: the same prefix continued by a named, a regexp and
			// (when the router has interceptors) an interceptor parameter, with equal or different tails
			base := MustParse(rapid.SampledFrom(pool).Draw(t, "kbase"), cfg.Icpt)
			cut := runeCut(base, rapid.IntRange(1, len(base.Atoms)).Draw(t, "kcut"))
			tail := rapid.SampledFrom([]string{"", "/", "/a", ".html", "-"}).Draw(t, "ktail")
			for j := 0; j < 3; j++ {
				b := newBuilder(cfg)
				b.seed(base, cut)
				if !b.canParam() {
					break
				}
				b.addParam(t)
				if tail != "" && b.litOK(tail) {
					b.sb.WriteString(tail)
					b.lastParam = nil
					if rapid.IntRange(0, 3).Draw(t, "kmore") == 0 {
						b.extend(t, 1)
					}
				}
				add(b.sb.String())
				if j == 0 && rapid.Bool().Draw(t, "kbelow") {
					// and a route below the first competitor: its node then stays in the tree when it is emptied
					b.extend(t, rapid.IntRange(1, 2).Draw(t, "kbelowExt"))
					add(b.sb.String())
				}
			}
		case mode < 4 || len(pool) == 0:
			add(GenPattern(t, cfg))
		case mode < 8:
			base := MustParse(rapid.SampledFrom(pool).Draw(t, "base"), cfg.Icpt)
			cut := runeCut(base, rapid.IntRange(1, len(base.Atoms)).Draw(t, "cut"))
			b := newBuilder(cfg)
			b.seed(base, cut)
			b.extend(t, rapid.IntRange(1, 2).Draw(t, "ext"))
			add(b.sb.String())
		default:
			var base *Pattern
			cut := 0
			if rapid.Bool().Draw(t, "burstRoot") {
				base = MustParse("/", cfg.Icpt)
				cut = 1
			} else {
				base = MustParse(rapid.SampledFrom(pool).Draw(t, "bbase"), cfg.Icpt)
				cut = runeCut(base, rapid.IntRange(1, len(base.Atoms)).Draw(t, "bcut"))
			}
			k := rapid.IntRange(5, 8).Draw(t, "burstK")
			off := rapid.IntRange(0, len(burstBytes)-1).Draw(t, "burstOff")
			for j := 0; j < k; j++ {
				b := newBuilder(cfg)
				b.seed(base, cut)
				c := burstBytes[(off+j)%len(burstBytes)]
				if !b.litOK(c) {
					continue
				}
				b.sb.WriteString(c)
				b.lastParam = nil
				if rapid.IntRange(0, 4).Draw(t, "burstTail") == 0 {
					b.extend(t, 1)
				}
				add(b.sb.String())
			}
			if rapid.Bool().Draw(t, "burstParam") {
				b := newBuilder(cfg)
				b.seed(base, cut)
				if b.canParam() {
					b.addParam(t)
					if rapid.Bool().Draw(t, "burstParamTail") {
						b.addLit(t, litChunks)
					}
					add(b.sb.String())
				}
			}
		}
	}
	return pool
}

// runeCut moves a cut position (in atoms) forward so that it never falls inside
// a multi-byte character: literal text of generated patterns is always valid
// UTF-8 (Go's regexp compiler rejects anything else after a regexp parameter).
func runeCut(p *Pattern, cut int) int {
	for cut < len(p.Atoms) && p.Atoms[cut].IsLit() && p.Atoms[cut].B&0xC0 == 0x80 {
		cut++
	}
	return cut
}

const pathAlphabet = "ab1/.-xyz7c"

// GenValue draws a parameter value: simple, matching, or hostile.
func GenValue(t *rapid.T, pm *Param) string {
	mode := rapid.IntRange(0, 9).Draw(t, "valMode")
	if mode < 4 {
		if s := pm.Simple(); len(s) > 0 {
			return rapid.SampledFrom(s).Draw(t, "simple")
		}
	}
	if mode < 7 {
		var cands []string
		for _, c := range []string{"1", "11", "a", "ab", "b1", "aa", "ba", "a1", "1a", "abc", "", "digit", "a/b", "1/1", "x.y", "a-b", "a.b", "img", "doc", "yz", "x",
			"a\nb", "1\n2", "a b", "a%2Fb", "100%", "é", "a\x00b",
			"0", "9", "09", "90", "A", "Z", "az", "AZ", "a0Z9", "zZ", "_", "a_b"} { // the ends of the ranges 0-9, a-z, A-Z and what lies just outside
			if pm.Accepts(c) {
				cands = append(cands, c)
			}
		}
		if len(cands) > 0 {
			return rapid.SampledFrom(cands).Draw(t, "matching")
		}
	}
	if mode == 9 && rapid.Bool().Draw(t, "oddText") {
		// text that is special somewhere: letters whose case mapping leaves ASCII or changes length (KELVIN SIGN, dotted
		// capital I, dotless i, long s, sharp s), digits that are not ASCII, invalid UTF-8, line breaks, NUL, separators
		return rapid.SampledFrom([]string{"\u212a", "a\u212a7", "\u0130", "x\u0130", "\u0131", "\u017f", "\u00df", "\uff14\uff12", "\u0664\u0662", "7\uff12",
			"\xff", "a\xffb", "\xc3", "\n", "a\nb", "7\n8", "\r\n", "\x00", "a\tb", " ", "a,b", "a;b", "\"", "\\", "%", "%41", "+", "~", "\ufffd", "e\u0301"}).Draw(t, "odd")
	}
	n := rapid.IntRange(0, 4).Draw(t, "valLen")
	var sb strings.Builder
	for i := 0; i < n; i++ {
		sb.WriteByte(pathAlphabet[rapid.IntRange(0, len(pathAlphabet)-1).Draw(t, "valByte")])
	}
	return sb.String()
}

// GenPathFrom instantiates a pattern with drawn values and optionally mutates
// the result by one byte.
func GenPathFrom(t *rapid.T, p *Pattern) string {
	var sb strings.Builder
	for _, a := range p.Atoms {
		if a.P == nil {
			sb.WriteByte(a.B)
		} else {
			sb.WriteString(GenValue(t, a.P))
		}
	}
	s := sb.String()
	switch rapid.IntRange(0, 9).Draw(t, "mut") {
	case 0: // delete one byte
		if len(s) > 0 {
			i := rapid.IntRange(0, len(s)-1).Draw(t, "mutPos")
			s = s[:i] + s[i+1:]
		}
	case 1: // insert one byte
		i := rapid.IntRange(0, len(s)).Draw(t, "mutPos")
		c := pathAlphabet[rapid.IntRange(0, len(pathAlphabet)-1).Draw(t, "mutByte")]
		s = s[:i] + string(c) + s[i:]
	case 2: // append a tail
		s += rapid.SampledFrom([]string{"/", "a", "/a", "1", ".html", "x"}).Draw(t, "tail")
	}
	return s
}

// GenRandPath draws a short string over the literal and value alphabets.
func GenRandPath(t *rapid.T) string {
	n := rapid.IntRange(0, 8).Draw(t, "rlen")
	var sb strings.Builder
	if rapid.IntRange(0, 4).Draw(t, "rlead") > 0 {
		sb.WriteByte('/')
	}
	for i := 0; i < n; i++ {
		sb.WriteByte(pathAlphabet[rapid.IntRange(0, len(pathAlphabet)-1).Draw(t, "rbyte")])
	}
	return sb.String()
}

// GenPath draws a path for a pool: mostly derived from a pool pattern.
func GenPath(t *rapid.T, pool []*Pattern) string {
	if len(pool) > 0 && rapid.IntRange(0, 9).Draw(t, "pathMode") < 8 {
		return GenPathFrom(t, rapid.SampledFrom(pool).Draw(t, "pathBase"))
	}
	return GenRandPath(t)
}
