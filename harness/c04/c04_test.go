// C04 — Allow headers and method sets are accurate at every moment.
package c04

import (
	"fmt"
	"testing"

	"pgregory.net/rapid"

	"verif/harness/life"
	"verif/harness/pat"
	"verif/harness/ref"
	"verif/harness/rig"
)

type Case struct {
	Icpt    string    `json:"icpt"`
	Trace   bool      `json:"trace"`
	Pool    []string  `json:"pool"`
	Ops     []life.Op `json:"ops"`
	Variant int       `json:"variant"`
}

func gen(t *rapid.T) Case {
	cfg := pat.GenCfg(t, true)
	c := Case{Icpt: cfg.IcptName, Trace: rapid.Bool().Draw(t, "trace")}
	c.Pool = pat.GenPool(t, cfg, rapid.IntRange(2, rig.Up(10)).Draw(t, "npool"))
	c.Ops = life.GenOps(t, cfg, c.Pool, rapid.IntRange(0, rig.Up(25)).Draw(t, "nops"),
		life.GenOpts{Facades: false, Hostile: true, NewMethods: true, Trace: c.Trace})
	c.Variant = rapid.IntRange(0, 11).Draw(t, "variant")
	if rapid.IntRange(0, 79).Draw(t, "mass") == 0 {
		// a table of a size beyond the usual: several hundred routes with one method below one prefix, registered in
		// one go and taken away again by a Clean - per-method bookkeeping must not care how many there are
		n := rapid.SampledFrom([]int{64, 127, 128, 255, 256, 257, 300, 520}).Draw(t, "massN")
		ms := rapid.SampledFrom([][]string{{"DELETE"}, {"GET"}, {"PATCH", "PUT"}, {"POST"}}).Draw(t, "massMethods")
		var ps []string
		for i := 0; i < n; i++ {
			ps = append(ps, fmt.Sprintf("/mm/%d", i))
		}
		mass := []life.Op{{Kind: "handleMany", Patterns: ps, Methods: ms}}
		if rapid.Bool().Draw(t, "massOther") {
			mass = append(mass, life.Op{Kind: "handle", Pattern: "/other", Methods: []string{rapid.SampledFrom([]string{"POST", "GET", "CONNECT"}).Draw(t, "massOtherM")}})
		}
		if rapid.Bool().Draw(t, "massPrefixClean") {
			mass = append(mass, life.Op{Kind: "prefixClean", Prefix: rapid.SampledFrom([]string{"/mm/", "/mm", "/m", "/mm/1"}).Draw(t, "massPrefix")})
		} else {
			mass = append(mass, life.Op{Kind: "clean"})
		}
		at := rapid.IntRange(0, len(c.Ops)).Draw(t, "massAt")
		c.Ops = append(append(append([]life.Op{}, c.Ops[:at]...), mass...), c.Ops[at:]...)
	}
	return c
}

func subset(a, b []string) bool {
	m := map[string]bool{}
	for _, x := range b {
		m[x] = true
	}
	for _, x := range a {
		if !m[x] {
			return false
		}
	}
	return true
}

func star(s *life.Sys, when string) error {
	o := s.Get("OPTIONS", "*")
	if o.Panicked {
		return rig.Violf("star-panic", "%s: OPTIONS * panicked: %v", when, o.PanicVal)
	}
	if o.BaseKind != "options" {
		return rig.Violf("star-handler", "%s: OPTIONS * answered by %s(%s)", when, o.BaseID, o.BaseKind)
	}
	allow := o.Allow()
	lo, hi := s.M.StarLower(), s.M.StarUpper()
	if !subset(lo, allow) {
		return rig.Violf("star-missing", "%s: OPTIONS * Allow=%v lacks some of %v", when, allow, lo)
	}
	if !subset(allow, hi) {
		return rig.Violf("star-stale", "%s: OPTIONS * Allow=%v lists methods no live route has (at most %v)", when, allow, hi)
	}
	if len(allow) != len(rig.SplitList(o.Header.Get("Allow"))) {
		return rig.Violf("star-dup", "%s: OPTIONS * Allow=%q", when, o.Header.Get("Allow"))
	}
	return nil
}

func check(c Case, st *rig.Stats) error {
	env := rig.NewEnv()
	s := life.NewSys(env, c.Icpt, rig.Opts{Trace: c.Trace})
	nontriv := false
	var classes []string
	if err := star(s, "fresh router"); err != nil {
		return err
	}
	hist := func(i int) string {
		var out []string
		for j := 0; j <= i; j++ {
			out = append(out, c.Ops[j].String())
		}
		return fmt.Sprint(out)
	}
	everSplit := map[string]bool{} // patterns that were live while another pattern sharing a proper prefix was registered later
	for i, op := range c.Ops {
		before := s.M.Clone()
		res := s.Apply(op)
		when := fmt.Sprintf("after step %d %s; history %s", i, op, hist(i))
		// bookkeeping for the non-triviality rule
		for pm := range res.Touched {
			if before.R[pm.P] == nil && s.M.R[pm.P] != nil { // a new pattern appeared: it may have split older nodes
				np := s.Parsed(pm.P)
				for _, q := range s.LiveParsed() {
					if q.Src != pm.P && np != nil {
						d := pat.FirstDiff(np, q)
						if d > 0 && d < len(q.Atoms) {
							everSplit[q.Src] = true
						}
					}
				}
			}
			if before.R[pm.P] != nil && s.M.R[pm.P] != nil && everSplit[pm.P] {
				nontriv = true
				classes = append(classes, "method-set-changed-after-node-split")
			}
		}
		if res.Removal && len(res.Touched) > 0 && len(s.M.R) > 0 {
			nontriv = true
			classes = append(classes, "removal-while-others-stay")
		}
		if res.Removal && len(res.Touched) == 0 {
			classes = append(classes, "removal-of-nothing")
		}
		// Routes()
		var routes map[string][]string
		if v, panicked := rig.Try(func() { routes = s.R.Routes() }); panicked {
			return rig.Violf("routes-panicked", "%s: %v", when, v)
		}
		want := s.M.Render()
		if len(routes) != len(want) {
			return rig.Violf("routes", "%s: Routes()=%v, model %v", when, routes, want)
		}
		for p, ms := range want {
			if !rig.EqualSets(routes[p], ms) || len(routes[p]) != len(ms) {
				return rig.Violf("routes", "%s: Routes()[%q]=%v, model %v", when, p, routes[p], ms)
			}
		}
		// every live pattern
		for _, p := range s.LiveParsed() {
			path, _, ok := p.Witness(c.Variant)
			if !ok {
				continue
			}
			for _, m := range life.ProbeMethods {
				if c.Trace && m == "TRACE" {
					continue
				}
				o := s.Get(m, path)
				if o.Panicked {
					classes = append(classes, "panic(not-judged-here)")
					continue
				}
				if o.NodeNil || s.M.R[o.Pattern] == nil {
					classes = append(classes, "not-routed-to-live(C03's-subject)")
					continue
				}
				set := s.M.AllowSet(o.Pattern)
				if !rig.EqualSets(o.NodeMethods, set) || len(o.NodeMethods) != len(set) {
					return rig.Violf("node-methods", "%s: %s %q on %q: Node().Methods()=%v, registered set %v", when, m, path, o.Pattern, o.NodeMethods, set)
				}
				if na := rig.SplitList(o.NodeAllow); !rig.EqualSets(na, set) || len(na) != len(set) {
					return rig.Violf("node-allowheader", "%s: %s %q on %q: Node().AllowHeader()=%q, registered set %v", when, m, path, o.Pattern, o.NodeAllow, set)
				}
				switch o.BaseKind {
				case "options":
					if a := o.Allow(); !rig.EqualSets(a, set) || len(a) != len(set) {
						return rig.Violf("options-allow", "%s: OPTIONS %q on %q: Allow=%q, registered set %v", when, path, o.Pattern, o.Header.Get("Allow"), set)
					}
				case "405":
					if a := o.Allow(); !rig.EqualSets(a, set) || len(a) != len(set) {
						return rig.Violf("405-allow", "%s: %s %q on %q answered 405 with Allow=%q, registered set %v", when, m, path, o.Pattern, o.Header.Get("Allow"), set)
					}
					for _, x := range set {
						if x == m {
							return rig.Violf("405-for-allowed", "%s: %s %q on %q answered 405 although Allow lists it", when, m, path, o.Pattern)
						}
					}
				}
			}
		}
		if err := star(s, when); err != nil {
			return err
		}
	}
	_ = ref.Nine
	st.Eval(c, nontriv, classes...)
	return nil
}

var stats = rig.NewStats("C04",
	"rapid draws a pool of 2-10 witness-safe patterns and a history of 0-25 Handle/HandleMany/Remove/Remove(methods incl. never-registered, HEAD, OPTIONS, '')/Clean/Prefix.Clean steps, with and without WithTrace; on the fresh router and after every step OPTIONS * is bounded below and above by the model, and for every live pattern the Allow header of OPTIONS and of every 405, Node().Methods(), Node().AllowHeader() and Routes() must equal the model's set (methods + HEAD if GET + OPTIONS + TRACE if configured) as sets. Non-trivial: a step changed the method set of a pattern whose node had been split by a later registration sharing a proper prefix, or removed something while other routes stayed; distinct by hash of the case. Later additions to the generated domain: One case in eighty registers 64-520 routes with one method set in one call and takes them away with Clean / Prefix.Clean (per-method bookkeeping at table sizes beyond 8-bit counters).",
	"Allow strings are compared as sets (split on ',', trimmed), no duplicates allowed",
	"OPTIONS * may or may not list HEAD")

func TestProp(t *testing.T) { rig.RunProp(t, stats, gen, check) }

func FuzzProp(f *testing.F) { rig.FuzzProp(f, stats, gen, check) }
