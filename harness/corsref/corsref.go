// Package corsref holds the generator and the reference decision table shared by
// the two CORS properties (C11 upper bound, C12 lower bound).
package corsref

import (
	"fmt"
	"io"
	"log"
	"log/slog"
	"net/http"
	"strings"

	"github.com/issue9/mux/v9"
	"pgregory.net/rapid"

	"verif/harness/ref"
	"verif/harness/rig"
)

type Config struct {
	Origins      []string `json:"origins"`
	AllowHeaders []string `json:"allow_headers"`
	Exposed      []string `json:"exposed"`
	MaxAge       int      `json:"max_age"`
	Cred         bool     `json:"cred"`
	Trace        bool     `json:"trace"`
}

type Route struct {
	Pattern string   `json:"pattern"`
	Methods []string `json:"methods"`
	// Remove: after all registrations, Remove(Pattern, Remove...) - a mix of registered and unregistered names
	Remove []string `json:"remove,omitempty"`
	// RemoveAt: the removal happens just before request number RemoveAt (0: before the first one)
	RemoveAt int `json:"remove_at,omitempty"`
	// Add: methods registered on the pattern later, just before request number AddAt (>= 1): a route that gains a
	// method between two requests
	Add   []string `json:"add,omitempty"`
	AddAt int      `json:"add_at,omitempty"`
	// Panics: the route's handler panics; the router then has WithStatusRecovery(500), which answers through the
	// same header map the CORS headers were written to
	Panics bool `json:"panics,omitempty"`
}

// Sibling is a second, stand-alone router of the same process. Its option lists are longer slices of the
// very arrays the subject's lists were cut from (what a caller does who keeps one list of origins and
// hands parts of it to several routers); it is created before or after the subject and is sent every
// request just before the subject is. Nothing it does may show on the subject.
type Sibling struct {
	After        bool     `json:"after"`
	ExtraOrigins []string `json:"extra_origins,omitempty"`
	ExtraHeaders []string `json:"extra_headers,omitempty"`
	ExtraExposed []string `json:"extra_exposed,omitempty"`
}

type Request struct {
	Method    string  `json:"method"`
	Path      string  `json:"path"`
	Origin    *string `json:"origin"`
	ACRM      *string `json:"acrm"`
	ACRH      *string `json:"acrh"`
	PathClass string  `json:"path_class"`
	// Origin2: a second Origin header line after the first (the first is the request's Origin for every reader that
	// uses Header.Get; a response must never carry more than one Access-Control-Allow-Origin value)
	Origin2 *string `json:"origin2,omitempty"`
}

type Case struct {
	// Subject: "router" = a stand-alone router; "gnew-override" = a router made by Group.New whose own
	// CORS option overrides a different one given to NewGroup; "gnew-inherit" = Group.New without an
	// own CORS option, so the group's (= Cfg) applies.
	Subject  string    `json:"subject"`
	GroupCfg *Config   `json:"group_cfg,omitempty"`
	Cfg      Config    `json:"cfg"`
	Routes   []Route   `json:"routes"`
	Reqs     []Request `json:"reqs"`
	Sibling  *Sibling  `json:"sibling,omitempty"`
	// Recovery: which recovery option the router has when one of its routes panics: status (default) func write log slog
	Recovery string `json:"recovery,omitempty"`
}

var (
	originPool = []string{"https://a.example", "https://b.example", "http://c.example:8080", "null"}
	headerPool = []string{"Content-Type", "X-Custom", "Authorization", "X-Api-Key", "x-token", "content-language", "X-Token-2", "X-Cache~Key", "X_Req^Id", "X:Trace", "X@Id", "Accept"} // incl. names with bytes no header token may hold
	patterns   = []string{"/a", "/b/{id}", "/c"}
	witness    = map[string]string{"/a": "/a", "/b/{id}": "/b/7", "/c": "/c"}
	methodSets = [][]string{{"GET"}, {"POST"}, {"GET", "POST"}, {"DELETE", "PUT"}, {"GET", "PATCH", "DELETE"}, nil}
)

// bigOrigins: a pool for origin lists of a size beyond the usual (nine to forty entries); some are 64 bytes and longer.
// A list is a subset, so unlisted members sort between, before and behind the listed ones.
var bigOrigins = func() []string {
	var out []string
	for i := 0; i < 60; i++ {
		o := fmt.Sprintf("https://t%02d.example.com", i)
		if i%7 == 3 {
			o = fmt.Sprintf("https://%s%02d.example.com", strings.Repeat("l", 40+i), i)
		}
		out = append(out, o)
	}
	return out
}()

func randCase(t *rapid.T, s string) string {
	b := []byte(s)
	for i := range b {
		if b[i] >= 0x80 {
			continue // letter case is varied in the ASCII letters only
		}
		switch rapid.IntRange(0, 3).Draw(t, "case") {
		case 0:
			b[i] = byte(strings.ToUpper(string(b[i]))[0])
		case 1:
			b[i] = byte(strings.ToLower(string(b[i]))[0])
		}
	}
	return string(b)
}

func Gen(t *rapid.T) Case {
	var c Case
	switch rapid.IntRange(0, 5).Draw(t, "originsMode") {
	case 0:
		// none: CORS denied
	case 1:
		c.Cfg.Origins = []string{"*"}
	case 2:
		c.Cfg.Origins = append(rapid.SliceOfNDistinct(rapid.SampledFrom(originPool[:3]), 1, 2, rapid.ID[string]).Draw(t, "originsStar"), "*")
	default:
		c.Cfg.Origins = rapid.SliceOfNDistinct(rapid.SampledFrom(originPool[:3]), 1, 3, rapid.ID[string]).Draw(t, "origins")
		if rapid.IntRange(0, 7).Draw(t, "bigList") == 0 {
			c.Cfg.Origins = rapid.Permutation(bigOrigins).Draw(t, "bigOrigins")[:rapid.IntRange(8, 40).Draw(t, "bigN")]
		}
	}
	switch rapid.IntRange(0, 4).Draw(t, "ahMode") {
	case 0:
	case 1:
		c.Cfg.AllowHeaders = []string{"*"}
		if rapid.Bool().Draw(t, "starMixed") {
			c.Cfg.AllowHeaders = rapid.Permutation([]string{"*", "Content-Type", "X-Custom"}).Draw(t, "starMix")[:rapid.IntRange(2, 3).Draw(t, "starMixN")]
			hasStar := false
			for _, h := range c.Cfg.AllowHeaders {
				hasStar = hasStar || h == "*"
			}
			if !hasStar {
				c.Cfg.AllowHeaders[0] = "*"
			}
		}
	default:
		c.Cfg.AllowHeaders = rapid.SliceOfNDistinct(rapid.SampledFrom(headerPool[:11]), 1, 4, rapid.ID[string]).Draw(t, "ah")
	}
	if rapid.Bool().Draw(t, "hasExposed") {
		c.Cfg.Exposed = rapid.SliceOfNDistinct(rapid.SampledFrom([]string{"X-Total", "Etag", "X-Rate"}), 1, 2, rapid.ID[string]).Draw(t, "exposed")
	}
	c.Cfg.MaxAge = rapid.SampledFrom([]int{-1, 0, 60, 3600}).Draw(t, "maxAge")
	c.Cfg.Cred = rapid.Bool().Draw(t, "cred")
	for _, o := range c.Cfg.Origins {
		if o == "*" && rapid.IntRange(0, 3).Draw(t, "starWithCred") > 0 {
			c.Cfg.Cred = false // '*' with credentials is refused at construction: kept now and then, to see that it is
		}
	}
	c.Cfg.Trace = rapid.IntRange(0, 4).Draw(t, "trace") == 0
	c.Recovery = rapid.SampledFrom([]string{"status", "func", "write", "log", "slog"}).Draw(t, "recoveryKind")
	if rapid.IntRange(0, 11).Draw(t, "allowAll") == 0 {
		// the configuration WithAllowedCORS(maxAge) stands for; it is then built with that option
		c.Cfg.Origins, c.Cfg.AllowHeaders, c.Cfg.Exposed, c.Cfg.Cred = []string{"*"}, []string{"*"}, nil, false
	}
	c.Subject = rapid.SampledFrom([]string{"router", "router", "gnew-override", "gnew-inherit"}).Draw(t, "subject")
	if c.Subject == "gnew-override" {
		// what the group was given must not matter: a permissive list with credentials
		c.GroupCfg = &Config{Origins: append([]string{}, originPool[:3]...), AllowHeaders: []string{"*"}, Exposed: []string{"X-Group"}, MaxAge: 7, Cred: true}
	}
	perm := rapid.Permutation(patterns).Draw(t, "routes")
	for _, p := range perm[:rapid.IntRange(1, 3).Draw(t, "nroutes")] {
		rt := Route{Pattern: p, Methods: rapid.SampledFrom(methodSets).Draw(t, "rmethods")}
		if rapid.IntRange(0, 3).Draw(t, "rremove") == 0 {
			rt.Remove = rapid.SliceOfNDistinct(rapid.SampledFrom([]string{"GET", "POST", "DELETE", "PUT", "PATCH", "CONNECT"}), 1, 3, rapid.ID[string]).Draw(t, "rremoveMs")
			rt.Panics = false
			if rapid.Bool().Draw(t, "rremoveLate") {
				rt.RemoveAt = rapid.IntRange(1, 7).Draw(t, "rremoveAt") // between two requests (never, if there are fewer)
			}
		}
		if len(rt.Remove) == 0 {
			rt.Panics = rapid.IntRange(0, 5).Draw(t, "rpanics") == 0
		}
		if rt.Methods != nil && rapid.IntRange(0, 3).Draw(t, "radd") == 0 {
			var free []string
			for _, m := range []string{"GET", "POST", "DELETE", "PUT", "PATCH"} {
				if !contains(rt.Methods, m) {
					free = append(free, m)
				}
			}
			rt.Add = rapid.Permutation(free).Draw(t, "raddMs")[:rapid.IntRange(1, 2).Draw(t, "raddN")]
			rt.AddAt = rapid.IntRange(1, 7).Draw(t, "raddAt")
		}
		c.Routes = append(c.Routes, rt)
	}
	if rapid.IntRange(0, 3).Draw(t, "sibling") == 0 {
		sb := &Sibling{After: rapid.Bool().Draw(t, "sibAfter")}
		rest := func(pool, have []string) []string {
			var out []string
			for _, x := range pool {
				if !contains(have, x) {
					out = append(out, x)
				}
			}
			return out
		}
		if o := rest(originPool[:3], c.Cfg.Origins); len(o) > 0 {
			sb.ExtraOrigins = rapid.Permutation(o).Draw(t, "sibOrigins")[:rapid.IntRange(1, len(o)).Draw(t, "sibNOrigins")]
		}
		if !contains(c.Cfg.AllowHeaders, "*") {
			if h := rest(headerPool[:11], c.Cfg.AllowHeaders); len(h) > 0 {
				sb.ExtraHeaders = rapid.Permutation(h).Draw(t, "sibHeaders")[:rapid.IntRange(1, 3).Draw(t, "sibNHeaders")]
			}
		}
		sb.ExtraExposed = []string{"A-First", "X-Sib"}[:rapid.IntRange(0, 2).Draw(t, "sibNExposed")]
		c.Sibling = sb
	}
	str := func(s string) *string { return &s }
	for i, n := 0, rapid.IntRange(1, 8).Draw(t, "nreqs"); i < n; i++ {
		if i > 0 && rapid.IntRange(0, 4).Draw(t, "repeat") == 0 {
			// the very same request once more (the table may have changed in between)
			c.Reqs = append(c.Reqs, c.Reqs[rapid.IntRange(0, i-1).Draw(t, "repeatOf")])
			continue
		}
		var q Request
		var rt *Route
		q.Method = rapid.SampledFrom([]string{"OPTIONS", "OPTIONS", "OPTIONS", "GET", "POST", "HEAD", "DELETE", "PUT", "PATCH", "BOGUS", ""}).Draw(t, "method")
		switch rapid.IntRange(0, 10).Draw(t, "pathMode") {
		case 10:
			q.Path, q.PathClass = "", "empty" // request target "http://host": the same tree-wide node as "*"
		case 0:
			q.Path, q.PathClass = "/nope", "unknown"
		case 1:
			q.Path, q.PathClass = "*", "star"
		case 2:
			p := rapid.SampledFrom(patterns).Draw(t, "rpath")
			q.Path, q.PathClass = witness[p], "witness"
		default:
			rt = &c.Routes[rapid.IntRange(0, len(c.Routes)-1).Draw(t, "rroute")]
			q.Path, q.PathClass = witness[rt.Pattern], "witness"
		}
		switch rapid.IntRange(0, 9).Draw(t, "originMode") {
		case 0:
		case 1:
			q.Origin = str(strings.ToUpper(rapid.SampledFrom(originPool[:3]).Draw(t, "originUpper")))
		case 2:
			bad := []string{"https://evil.example", "null", "https://a.example.evil", "", "*", "https://zzz.example", "a", "https://t00.example.co", "https://t59.example.comm"}
			if len(c.Cfg.Origins) > 4 {
				bad = append(append([]string{}, bad...), bigOrigins...) // mostly unlisted members of the pool the list was cut from
			}
			q.Origin = str(rapid.SampledFrom(bad).Draw(t, "originBad"))
		case 3:
			q.Origin = str(rapid.SampledFrom(originPool[:3]).Draw(t, "originPool"))
		default:
			var listed []string
			for _, o := range c.Cfg.Origins {
				if o != "*" {
					listed = append(listed, o)
				}
			}
			if len(listed) == 0 {
				listed = originPool[:3]
			}
			q.Origin = str(rapid.SampledFrom(listed).Draw(t, "originListed"))
		}
		if q.Origin != nil && rapid.IntRange(0, 9).Draw(t, "origin2") == 0 {
			q.Origin2 = str(rapid.SampledFrom([]string{"https://evil.example", "https://a.example", "https://b.example", "null", ""}).Draw(t, "origin2Val"))
		}
		switch rapid.IntRange(0, 9).Draw(t, "acrmMode") {
		case 0, 1:
		case 2:
			q.ACRM = str(rapid.SampledFrom([]string{"BOGUS", "get", "", "G E T"}).Draw(t, "acrmJunk"))
		case 3, 4:
			q.ACRM = str(rapid.SampledFrom([]string{"GET", "POST", "DELETE", "PUT", "PATCH", "HEAD", "OPTIONS", "TRACE", "CONNECT"}).Draw(t, "acrm"))
		default:
			ms := ref.AnyMethods
			if rt != nil && len(rt.Methods) > 0 {
				ms = rt.Methods
			}
			q.ACRM = str(rapid.SampledFrom(ms).Draw(t, "acrmServed"))
		}
		if rapid.IntRange(0, 2).Draw(t, "hasACRH") > 0 {
			var parts []string
			for j, m := 0, rapid.IntRange(1, 3).Draw(t, "nACRH"); j < m; j++ {
				var h string
				if len(c.Cfg.AllowHeaders) > 0 && c.Cfg.AllowHeaders[0] != "*" && rapid.IntRange(0, 3).Draw(t, "acrhAllowed") > 0 {
					h = rapid.SampledFrom(c.Cfg.AllowHeaders).Draw(t, "acrhFromCfg")
				} else if len(c.Cfg.AllowHeaders) > 0 && c.Cfg.AllowHeaders[0] != "*" && rapid.IntRange(0, 2).Draw(t, "acrhNear") == 0 {
					// near misses: a fragment or an extension of an allowed name
					base := rapid.SampledFrom(c.Cfg.AllowHeaders).Draw(t, "acrhNearBase")
					lo := rapid.IntRange(0, len(base)-1).Draw(t, "nearLo")
					hi := rapid.IntRange(lo+1, len(base)).Draw(t, "nearHi")
					h = strings.Trim(base[lo:hi], "-")
					switch rapid.IntRange(0, 5).Draw(t, "nearKind") {
					case 0:
						h = base + "-x"
					case 1, 2:
						// the same name with bit 5 of one byte flipped: another letter case, or another header altogether
						b := []byte(base)
						b[lo] ^= 0x20
						h = string(b)
					case 3, 4:
						// an i of the name replaced by a letter that is no case variant of it, although one of the case mappings
						// lands on it (dotted capital I, dotless i): another name under every reading of "case-insensitive"
						for _, cand := range append([]string{base}, c.Cfg.AllowHeaders...) {
							if k := strings.IndexAny(cand, "iI"); k >= 0 {
								h = cand[:k] + rapid.SampledFrom([]string{"\u0130", "\u0131"}).Draw(t, "nearDotted") + cand[k+1:]
								break
							}
						}
					}
					if h == "" {
						h = base + "-x"
					}
				} else {
					h = rapid.SampledFrom(headerPool).Draw(t, "acrhAny")
				}
				h = randCase(t, h)
				h = strings.Repeat(" ", rapid.IntRange(0, 2).Draw(t, "lsp")) + h + strings.Repeat(" ", rapid.IntRange(0, 1).Draw(t, "rsp"))
				parts = append(parts, h)
			}
			q.ACRH = str(strings.Join(parts, ","))
		}
		c.Reqs = append(c.Reqs, q)
	}
	return c
}

// World is the router and model built from a case.
type World struct {
	R *rig.Router
	H http.Handler // what requests are sent to (the router or its group)
	M *ref.Table

	c     Case
	done  map[int]bool // removals already applied
	added map[int]bool
	env   *rig.Env
	sib   http.Handler
}

func corsOpt(c Config) mux.Option {
	// every router gets lists of its own; an empty list is passed as nil, the way a caller writes it
	own := func(x []string) []string {
		if len(x) == 0 {
			return nil
		}
		return append([]string{}, x...)
	}
	if len(c.Origins) == 0 && len(c.AllowHeaders) == 0 && len(c.Exposed) == 0 && c.MaxAge == 0 && !c.Cred {
		return mux.WithDenyCORS() // the documented spelling of "no CORS at all"
	}
	if len(c.Origins) == 1 && c.Origins[0] == "*" && len(c.AllowHeaders) == 1 && c.AllowHeaders[0] == "*" && len(c.Exposed) == 0 && !c.Cred {
		return mux.WithAllowedCORS(c.MaxAge) // the documented spelling of "everything from everywhere"
	}
	return mux.WithCORS(own(c.Origins), own(c.AllowHeaders), own(c.Exposed), c.MaxAge, c.Cred)
}

// sharedOpts renders the subject's and the sibling's CORS options from common arrays: the subject's
// lists are the front parts (with spare capacity behind them), the sibling's the whole arrays.
func sharedOpts(c Config, sb *Sibling) (subject, sibling mux.Option) {
	cut := func(own, extra []string) ([]string, []string) {
		all := append(append(make([]string, 0, len(own)+len(extra)+2), own...), extra...)
		return all[:len(own)], all
	}
	o1, o2 := cut(c.Origins, sb.ExtraOrigins)
	h1, h2 := cut(c.AllowHeaders, sb.ExtraHeaders)
	e1, e2 := cut(c.Exposed, sb.ExtraExposed)
	if len(o2) == 0 {
		o2 = []string{"https://sibling.example"}
	}
	// the sibling never combines '*' with credentials (a rejected configuration)
	return mux.WithCORS(o1, h1, e1, c.MaxAge, c.Cred), mux.WithCORS(o2, h2, e2, c.MaxAge+1, c.Cred && !contains(o2, "*"))
}

// Refused reports whether the configuration is the documented refused combination: '*' among the
// origins together with credentials.
func (c Config) Refused() bool { return c.Cred && contains(c.Origins, "*") }

// TryBuild is Build under recover: constructing a router with a refused configuration panics.
func TryBuild(c Case) (w *World, v any, panicked bool) {
	v, panicked = rig.Try(func() { w = Build(c) })
	return
}

func Build(c Case) *World {
	env := rig.NewEnv()
	var r *rig.Router
	var front http.Handler
	subjectOpt := corsOpt(c.Cfg)
	var recov []mux.Option
	for _, rt := range c.Routes {
		if rt.Panics {
			switch c.Recovery {
			case "func":
				recov = []mux.Option{mux.WithRecovery(func(w http.ResponseWriter, _ any) { w.WriteHeader(500) })}
			case "write":
				recov = []mux.Option{mux.WithWriteRecovery(500, io.Discard)}
			case "log":
				recov = []mux.Option{mux.WithLogRecovery(500, log.New(io.Discard, "", 0))}
			case "slog":
				recov = []mux.Option{mux.WithSLogRecovery(500, slog.New(slog.NewTextHandler(io.Discard, nil)))}
			default:
				recov = []mux.Option{mux.WithStatusRecovery(500)}
			}
		}
	}
	var sib http.Handler
	mkSib := func() {}
	if c.Sibling != nil {
		var sibOpt mux.Option
		subjectOpt, sibOpt = sharedOpts(c.Cfg, c.Sibling)
		mkSib = func() {
			sr := rig.NewEnv().NewRouter("sibling", rig.Opts{Trace: c.Cfg.Trace, Extra: []mux.Option{sibOpt}})
			for _, rt := range c.Routes {
				sr.Handle(rt.Pattern, sr.Env.NewH(), nil, rt.Methods...) // never removed from
			}
			sib = sr
		}
		if !c.Sibling.After {
			mkSib()
		}
	}
	switch c.Subject {
	case "gnew-override", "gnew-inherit":
		gcfg := c.Cfg
		if c.GroupCfg != nil {
			gcfg = *c.GroupCfg
		}
		gopt := corsOpt(gcfg)
		if c.GroupCfg == nil {
			gopt = subjectOpt // inherited: the group's option is the subject's
		}
		g := env.NewGroup(gopt)
		var own []mux.Option
		if c.Cfg.Trace {
			own, _ = env.Options(rig.Opts{Trace: true})
		}
		if c.Subject == "gnew-override" {
			own = append(own, subjectOpt)
		}
		own = append(own, recov...)
		r = &rig.Router{Router: g.New("r", nil, own...), Env: env, NotFound: g.NotFound}
		front = g
	default:
		r = env.NewRouter("r", rig.Opts{Trace: c.Cfg.Trace, Extra: append([]mux.Option{subjectOpt}, recov...)})
		front = r
	}
	if c.Sibling != nil && c.Sibling.After {
		mkSib()
	}
	m := ref.NewTable(c.Cfg.Trace)
	for _, rt := range c.Routes {
		h := env.NewH()
		if rt.Panics {
			h = env.NewH(rig.Action{Op: "panic", V: "cors"})
		}
		r.Handle(rt.Pattern, h, nil, rt.Methods...)
		m.Handle(rt.Pattern, h.ID, rt.Methods)
	}
	w := &World{R: r, H: front, M: m, c: c, done: map[int]bool{}, added: map[int]bool{}, env: env, sib: sib}
	w.Advance(0)
	return w
}

// Advance applies the removals and late registrations scheduled before request number i; the checks call it before every request.
func (w *World) Advance(i int) {
	for k, rt := range w.c.Routes {
		if len(rt.Remove) > 0 && rt.RemoveAt <= i && !w.done[k] {
			w.done[k] = true
			w.R.Remove(rt.Pattern, rt.Remove...)
			w.M.Remove(rt.Pattern, rt.Remove...)
		}
	}
	for k, rt := range w.c.Routes {
		if len(rt.Add) > 0 && rt.AddAt <= i && !w.added[k] {
			w.added[k] = true
			var ms []string
			for _, m := range rt.Add {
				if !w.M.Has(rt.Pattern, m) {
					ms = append(ms, m)
				}
			}
			if len(ms) > 0 {
				h := w.env.NewH()
				w.R.Handle(rt.Pattern, h, nil, ms...)
				w.M.Handle(rt.Pattern, h.ID, ms)
			}
		}
	}
}

func (w *World) Serve(q Request) *rig.Outcome {
	if w.sib != nil {
		w.serve(w.sib, q)
	}
	return w.serve(w.H, q)
}

func (w *World) serve(h http.Handler, q Request) *rig.Outcome {
	hdr := map[string][]string{}
	if q.Origin != nil {
		hdr["Origin"] = []string{*q.Origin}
		if q.Origin2 != nil {
			hdr["Origin"] = append(hdr["Origin"], *q.Origin2)
		}
	}
	if q.ACRM != nil {
		hdr["Access-Control-Request-Method"] = []string{*q.ACRM}
	}
	if q.ACRH != nil {
		hdr["Access-Control-Request-Headers"] = []string{*q.ACRH}
	}
	return rig.Serve(h, rig.Req{Method: q.Method, Path: q.Path, Header: hdr})
}

// Facts the reference derives about one request.
type Facts struct {
	Deny          bool
	AnyOrigin     bool
	OriginListed  bool // the request's Origin is exactly one of the configured origins (and not "*")
	Preflight     bool // OPTIONS + Access-Control-Request-Method (non-empty), path other than "*" (and than "", which is the same node)
	RouteLive     bool
	Route         string
	RouteAllow    []string
	MethodServed  bool // the request method has a handler on the route
	ACRMServed    bool
	HeadersOK     bool // every requested header is allowed (case-insensitively), or "*" configured
	RequestedHdrs []string
}

func contains(list []string, s string) bool {
	for _, x := range list {
		if x == s {
			return true
		}
	}
	return false
}

// Derive computes the facts from the configuration, the model and the observed route.
func Derive(c Config, m *ref.Table, q Request, o *rig.Outcome) Facts {
	var f Facts
	f.Deny = len(c.Origins) == 0
	f.AnyOrigin = contains(c.Origins, "*")
	if q.Origin != nil && *q.Origin != "*" && contains(c.Origins, *q.Origin) {
		f.OriginListed = true
	}
	f.Preflight = q.Method == "OPTIONS" && q.ACRM != nil && *q.ACRM != "" && q.Path != "*" && q.Path != ""
	if !o.NodeNil && m.R[o.Pattern] != nil {
		f.RouteLive = true
		f.Route = o.Pattern
		f.RouteAllow = m.AllowSet(o.Pattern)
		switch {
		case q.Method == "OPTIONS":
			f.MethodServed = true
		case c.Trace && q.Method == "TRACE":
			f.MethodServed = false // answered by the TRACE handler on the root node, not by the route
		default:
			f.MethodServed = m.Serves(o.Pattern, q.Method) != ""
		}
		if q.ACRM != nil {
			f.ACRMServed = contains(f.RouteAllow, *q.ACRM)
		}
	}
	f.HeadersOK = true
	if q.ACRH != nil && strings.TrimSpace(*q.ACRH) != "" {
		for _, h := range strings.Split(*q.ACRH, ",") {
			h = strings.TrimSpace(h)
			f.RequestedHdrs = append(f.RequestedHdrs, h)
			if contains(c.AllowHeaders, "*") {
				continue
			}
			ok := false
			for _, a := range c.AllowHeaders {
				if strings.EqualFold(a, h) {
					ok = true
				}
			}
			if !ok {
				f.HeadersOK = false
			}
		}
	}
	return f
}

// Values returns all values of a response header.
func Values(h http.Header, k string) []string { return h.Values(k) }

// VaryList flattens every Vary value into lower-cased names.
func VaryList(h http.Header) []string {
	var out []string
	for _, v := range h.Values("Vary") {
		for _, x := range strings.Split(v, ",") {
			if x = strings.TrimSpace(x); x != "" {
				out = append(out, strings.ToLower(x))
			}
		}
	}
	return out
}
