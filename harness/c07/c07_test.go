// C07 — instances are isolated; a quiescent router serves concurrently.
package c07

import (
	"encoding/json"
	"fmt"
	"net/http"
	"net/url"
	"os"
	"runtime"
	"sort"
	"strconv"
	"sync"
	"sync/atomic"
	"testing"
	"time"

	"github.com/issue9/mux/v9"
	"github.com/issue9/mux/v9/types"
	"pgregory.net/rapid"

	"verif/harness/ref"
	"verif/harness/rig"
)

type Reg struct {
	Pattern string   `json:"p"`
	Methods []string `json:"ms"`
	Remove  bool     `json:"rm,omitempty"`
}

type Inst struct {
	Kind  string   `json:"kind"` // router hosts group
	Regs  []Reg    `json:"regs"`
	Doms  []string `json:"doms,omitempty"`
	Lock  bool     `json:"lock"`
	Trace bool     `json:"trace"`
	// Panics: the instance (router / group router) has a recovery option and ends its life with a request whose
	// handler panics and is recovered - nothing of that may be felt by any other instance
	Panics bool `json:"panics,omitempty"`
}

type Case struct {
	ProbeTrace bool   `json:"probe_trace"`
	Probe      []Reg  `json:"probe"`    // the fixed probe program on a brand-new router
	Activity   []Inst `json:"activity"` // sequential activity on other instances
	Parallel   []Inst `json:"parallel"` // distinct instances used from different goroutines at once
	QLock      bool   `json:"q_lock"`
	QGroup     bool   `json:"q_group,omitempty"` // the quiescent router is a group's; requests enter through the group
	QRegs      []Reg  `json:"q_regs"`
	QWorkers   int    `json:"q_workers"`
	QReqs      int    `json:"q_reqs"`
	Procs      int    `json:"procs"`
}

var (
	patterns = []string{"/a", "/b/{id}", "/c", "/a/b", "/d/{x}/{y:\\d+}", "/e", "/f", "/g", "/h/{n}",
		// the same routes with their parameters spelt the other way (captured / ignored): what another router of the
		// process may well use; one router refuses to hold both spellings
		"/b/{-id}", "/d/{x}/{-y:\\d+}", "/d/{-x}/{y:\\d+}", "/h/{-n}", "/i/{y:\\d+}/t", "/i/{-y:\\d+}/t",
		// a route with more parameters than usual and a catch-all: a near miss of the first binds and gives up nine names
		longRoute, "/{path}",
		// two routes whose texts agree once the braces are taken away: the token ends in another place
		"/j/{y:\\d+}.t", "/jj/{y:\\d+.t}"}
	methodSets = [][]string{{"GET"}, {"POST"}, {"GET", "POST"}, {"DELETE", "PUT"}, {"PATCH"}, {"CONNECT", "GET"}, nil, {"PUT"}, {"DELETE"}, {"GET", "DELETE", "PATCH"}, {"POST", "CONNECT"}}
	domains    = []string{"a.com", "{sub}.b.com", "c.io", "d.net", "{n:\\d+}.e.org", "f.com", "{-sub}.b.com", "{-n:\\d+}.e.org"}
)

const longRoute = "/l/{a1}/{a2}/{a3}/{a4}/{a5}/{a6}/{a7}/{a8}/{a9}/end"

func genRegs(t *rapid.T, min, max int) []Reg {
	var out []Reg
	for i, n := 0, rapid.IntRange(min, max).Draw(t, "nregs"); i < n; i++ {
		out = append(out, Reg{Pattern: rapid.SampledFrom(patterns).Draw(t, "p"), Methods: rapid.SampledFrom(methodSets).Draw(t, "ms"), Remove: rapid.IntRange(0, 5).Draw(t, "rm") == 0})
		if last := out[len(out)-1]; last.Pattern == longRoute && !last.Remove {
			// the long route comes with the catch-all that answers its near miss
			out = append(out, Reg{Pattern: "/{path}", Methods: []string{"GET"}})
		}
	}
	return out
}

func genInst(t *rapid.T) Inst {
	in := Inst{Kind: rapid.SampledFrom([]string{"router", "router", "hosts", "group"}).Draw(t, "ikind"), Lock: rapid.Bool().Draw(t, "ilock"), Trace: rapid.Bool().Draw(t, "itrace")}
	in.Regs = genRegs(t, 3, 12)
	in.Panics = rapid.IntRange(0, 2).Draw(t, "ipanics") == 0
	in.Doms = rapid.SliceOfN(rapid.SampledFrom(domains), 1, 6).Draw(t, "doms")
	return in
}

func gen(t *rapid.T) Case {
	c := Case{ProbeTrace: rapid.Bool().Draw(t, "ptrace"), Procs: rapid.SampledFrom([]int{2, 4, 16}).Draw(t, "procs")}
	c.Probe = genRegs(t, 0, 5)
	for i, n := 0, rapid.IntRange(1, 4).Draw(t, "nact"); i < n; i++ {
		c.Activity = append(c.Activity, genInst(t))
	}
	for i, n := 0, rapid.IntRange(2, 4).Draw(t, "npar"); i < n; i++ {
		c.Parallel = append(c.Parallel, genInst(t))
	}
	c.QLock = rapid.Bool().Draw(t, "qlock")
	c.QGroup = rapid.Bool().Draw(t, "qgroup")
	c.QRegs = genRegs(t, 2, 8)
	c.QWorkers = rapid.IntRange(2, 16).Draw(t, "qworkers")
	c.QReqs = rapid.IntRange(10, 120).Draw(t, "qreqs")
	return c
}

// ---- child ------------------------------------------------------------------

func witness(p string, v string) (string, map[string]string) {
	switch p {
	case "/b/{id}":
		return "/b/v" + v, map[string]string{"id": "v" + v}
	case "/d/{x}/{y:\\d+}":
		return "/d/w" + v + "/" + v, map[string]string{"x": "w" + v, "y": v}
	case "/h/{n}":
		return "/h/" + v, map[string]string{"n": v}
	case "/b/{-id}":
		return "/b/v" + v, map[string]string{}
	case "/d/{x}/{-y:\\d+}":
		return "/d/w" + v + "/" + v, map[string]string{"x": "w" + v}
	case "/d/{-x}/{y:\\d+}":
		return "/d/w" + v + "/" + v, map[string]string{"y": v}
	case "/h/{-n}":
		return "/h/" + v, map[string]string{}
	case "/i/{y:\\d+}/t":
		return "/i/" + v + "/t", map[string]string{"y": v}
	case "/i/{-y:\\d+}/t":
		return "/i/" + v + "/t", map[string]string{}
	case "/j/{y:\\d+}.t":
		return "/j/" + v + ".t", map[string]string{"y": v}
	case "/jj/{y:\\d+.t}":
		return "/jj/" + v + "xt", map[string]string{"y": v + "xt"}
	case longRoute:
		ps := map[string]string{}
		path := "/l"
		for i := 1; i <= 9; i++ {
			ps["a"+strconv.Itoa(i)] = v + "-" + strconv.Itoa(i)
			path += "/" + v + "-" + strconv.Itoa(i)
		}
		return path + "/end", ps
	case "/{path}":
		return "/zz" + v, map[string]string{"path": "zz" + v}
	}
	return p, map[string]string{}
}

// runProbe builds a brand-new router, runs the fixed probe program and renders
// every observation; the second value is the model's verdict on it.
func runProbe(c Case) (string, *rig.Violation) {
	env := rig.NewEnv()
	r := env.NewRouter("probe", rig.Opts{Trace: c.ProbeTrace})
	m := ref.NewTable(c.ProbeTrace)
	var obs []string
	star := func(when string) *rig.Violation {
		o := rig.Serve(r, rig.Req{Method: "OPTIONS", Path: "*"})
		obs = append(obs, fmt.Sprintf("%s OPTIONS * -> %s %d Allow=%q", when, o.BaseKind, o.EffStatus(), o.Header.Get("Allow")))
		if o.Panicked {
			return rig.Violf("fresh-router", "%s: OPTIONS * panicked: %v", when, o.PanicVal)
		}
		a := o.Allow()
		for _, want := range m.StarLower() {
			found := false
			for _, x := range a {
				if x == want {
					found = true
				}
			}
			if !found {
				return rig.Violf("fresh-router", "%s: OPTIONS * on a brand-new router answers Allow=%v, which lacks %s", when, a, want)
			}
		}
		return nil
	}
	if v := star("fresh"); v != nil {
		return "", v
	}
	for i, rg := range c.Probe {
		if rg.Remove {
			r.Remove(rg.Pattern, rg.Methods...)
			if len(rg.Methods) == 0 {
				m.Remove(rg.Pattern)
			} else {
				m.Remove(rg.Pattern, rg.Methods...)
			}
		} else if _, panicked := rig.Try(func() {
			h := env.NewH() // writes a body
			if i%2 == 1 {
				h = env.NewH(rig.Action{Op: "status", Code: 202}) // only a status
			}
			r.Handle(rg.Pattern, h, nil, rg.Methods...)
		}); !panicked {
			m.Handle(rg.Pattern, "h", rg.Methods)
		}
		if v := star(fmt.Sprintf("after probe step %d", i)); v != nil {
			return "", v
		}
		for _, p := range m.Live() {
			path, _ := witness(p, "7")
			for _, meth := range []string{"HEAD", "OPTIONS", "GET", "PATCH", "HEAD"} {
				o := rig.Serve(r, rig.Req{Method: meth, Path: path})
				obs = append(obs, fmt.Sprintf("%s %s -> %s %s %d Allow=%q methods=%v body=%d Content-Length=%q params=%v", meth, path, o.BaseKind, o.HandlerID, o.EffStatus(), o.Header.Get("Allow"), o.NodeMethods, len(o.Body), o.Header.Get("Content-Length"), rig.FmtParams(o.Params)))
				if !o.NodeNil && m.R[o.Pattern] != nil && !rig.EqualSets(o.NodeMethods, m.AllowSet(o.Pattern)) {
					return "", rig.Violf("fresh-router", "probe router: %s %s reports methods %v, model %v", meth, path, o.NodeMethods, m.AllowSet(o.Pattern))
				}
			}
		}
		b, _ := json.Marshal(r.Routes())
		obs = append(obs, "routes "+string(b))
	}
	// a brand-new Hosts and the package-level helpers know no interceptors: "word" is a regexp here
	hs := mux.NewHosts(false, "{w:word}.x.com", "b.com")
	for _, host := range []string{"word.x.com", "abc.x.com", "b.com", "B.COM:80", "c.com"} {
		r := &http.Request{Method: "GET", URL: &url.URL{Path: "/"}, Host: host, Header: http.Header{}}
		ctx := types.NewContext()
		ok := hs.Match(r, ctx)
		w, _ := ctx.Get("w")
		ctx.Destroy()
		obs = append(obs, fmt.Sprintf("fresh Hosts %s -> %v w=%q", host, ok, w))
		if want := host == "word.x.com" || host == "b.com" || host == "B.COM:80"; ok != want {
			return "", rig.Violf("fresh-hosts", "a brand-new Hosts with domains {w:word}.x.com, b.com answers %v for host %q", ok, host)
		}
	}
	u, err := mux.URL("/p/{w:word}/{n:digit}", map[string]string{"w": "a b", "n": "x"})
	obs = append(obs, fmt.Sprintf("mux.URL -> %q %v; CheckSyntax -> %v", u, err, mux.CheckSyntax("/{a:word}/{b:[}")))
	b, _ := json.Marshal(obs)
	return string(b), nil
}

// tagMW is a stateless middleware: safe to share between instances and goroutines.
type tagMW string

func (m tagMW) Middleware(next *rig.H, method, pattern, router string) *rig.H {
	return &rig.H{ID: string(m) + "(" + next.ID + ")", Kind: "mw", MW: string(m), Next: next}
}

// commonMW is what applications do with shared middlewares: one package-level slice (with
// spare capacity, as append leaves it) handed to the facades of every router; nobody may write to it.
var commonMW = append(make([]types.Middleware[*rig.H], 0, 4), tagMW("common"))

// runInst builds one instance, mutates it and serves from it; everything it
// touches belongs to it alone.
func runInst(in Inst, tag string) *rig.Violation {
	// what a caller may do with the method lists the package hands out: they are the caller's copies
	for _, ms := range [][]string{mux.Methods(), mux.AnyMethods()} {
		for i := range ms {
			ms[i] = "SCRIBBLED-" + tag
		}
		_ = append(ms[:0], "X", "Y")
	}
	if got := mux.AnyMethods(); len(got) != 6 || !rig.EqualSets(got, ref.AnyMethods) {
		return rig.Violf("instance-oracle", "%s: mux.AnyMethods() = %v after a caller wrote to an earlier result", tag, got)
	}
	switch in.Kind {
	case "hosts":
		hs := mux.NewHosts(in.Lock)
		// interceptors of its own, under names other instances use as plain regexps
		hs.RegisterInterceptor(func(s string) bool { return len(s) > 0 }, "word", "digit")
		live := map[string]bool{}
		for i, d := range in.Doms {
			if i%3 == 2 {
				hs.Delete(d)
				delete(live, d)
				continue
			}
			if _, panicked := rig.Try(func() { hs.Add(d) }); !panicked {
				live[d] = true
			}
			for _, probe := range []struct{ dom, host string }{{"a.com", "a.com"}, {"{sub}.b.com", "x.b.com"}, {"c.io", "c.io:80"}, {"d.net", "D.NET"}, {"{n:\\d+}.e.org", "77.e.org"}, {"f.com", "f.com"}, {"{-sub}.b.com", "x.b.com"}, {"{-n:\\d+}.e.org", "77.e.org"}} {
				if !live[probe.dom] {
					continue
				}
				r := &http.Request{Method: "GET", URL: &url.URL{Path: "/"}, Host: probe.host, Header: http.Header{}}
				ctx := types.NewContext()
				ok := hs.Match(r, ctx)
				ctx.Destroy()
				if !ok {
					return rig.Violf("instance-oracle", "%s: Hosts instance: live domain %q rejected host %q", tag, probe.dom, probe.host)
				}
			}
		}
		return nil
	}
	env := rig.NewEnv()
	var r *rig.Router
	var front http.Handler
	var wantOnion []string
	var extra []mux.Option
	if in.Panics {
		extra = append(extra, mux.WithStatusRecovery(500))
	}
	prefix := ""
	if in.Kind == "group" {
		g := env.NewGroup()
		g.Use(env.NewMW("mg"))
		own, _ := env.Options(rig.Opts{Lock: in.Lock, Trace: in.Trace, Extra: extra})
		rr := g.New("r-"+tag, mux.NewPathVersion("", "v1"), own...)
		r = &rig.Router{Router: rr, Env: env}
		front, prefix = g, "/v1"
		// a sibling router of the same group with middlewares of its own: what it does must not show on r
		// ... and with an interceptor of its own under a name this router uses as a plain regexp
		sib := g.New("sib-"+tag, mux.NewPathVersion("", "v2"), mux.WithInterceptor(func(string) bool { return true }, "\\d+"))
		rr.Use(env.NewMW("own"))
		sib.Use(env.NewMW("sibling"))
		g.Use(env.NewMW("mg2"))
		wantOnion = []string{"mg2", "own", "mg"}
	} else {
		r = env.NewRouter("r-"+tag, rig.Opts{Lock: in.Lock, Trace: in.Trace, Extra: extra})
		front = r
	}
	m := ref.NewTable(in.Trace)
	viaPrefix := map[string]bool{} // (pattern method) registered through the nested prefix
	autoVia := map[string]bool{}   // the call that created the pattern's OPTIONS / 405 handlers went through it
	for i, rg := range in.Regs {
		if rg.Remove {
			r.Remove(rg.Pattern, rg.Methods...)
			if len(rg.Methods) == 0 {
				m.Remove(rg.Pattern)
			} else {
				m.Remove(rg.Pattern, rg.Methods...)
			}
		} else {
			h := env.NewH()
			if _, panicked := rig.Try(func() {
				if i%2 == 1 {
					// through a nested prefix: this router's own middleware outside, the shared ones inside
					r.Prefix("", tagMW("own-"+tag)).Prefix("", commonMW...).Handle(rg.Pattern, h, nil, rg.Methods...)
				} else {
					r.Handle(rg.Pattern, h, nil, rg.Methods...)
				}
			}); !panicked {
				m.Handle(rg.Pattern, h.ID, rg.Methods)
				for _, meth := range ref.Expand(rg.Methods) {
					viaPrefix[rg.Pattern+" "+meth] = i%2 == 1
				}
				if _, had := autoVia[rg.Pattern]; !had {
					autoVia[rg.Pattern] = i%2 == 1
				}
			}
		}
		for p := range autoVia {
			if m.R[p] == nil {
				delete(autoVia, p)
			}
		}
		if m.R[longRoute] != nil {
			rig.Serve(front, rig.Req{Method: "GET", Path: prefix + "/l/1/2/3/4/5/6/7/8/9/other"}) // binds nine names, gives them up
		}
		for _, p := range m.Live() {
			path, params := witness(p, strconv.Itoa(i))
			for _, meth := range []string{"GET", "POST", "OPTIONS", "DELETE", "HEAD"} {
				o := rig.Serve(front, rig.Req{Method: meth, Path: prefix + path})
				if o.Panicked {
					return rig.Violf("instance-oracle", "%s: %s %s panicked: %v", tag, meth, path, o.PanicVal)
				}
				if o.Pattern != p || !rig.EqualParams(o.Params, params) {
					return rig.Violf("instance-oracle", "%s: %s %s routed to %q with %v, want %q with %v", tag, meth, path, o.Pattern, o.Params, p, params)
				}
				if want := m.Serves(p, meth); want != "" && o.BaseID != want {
					return rig.Violf("instance-oracle", "%s: %s %s ran %s, registered %s", tag, meth, path, o.BaseID, want)
				}
				want := append([]string{}, wantOnion...)
				lookup := meth
				if meth == "HEAD" {
					lookup = "GET" // HEAD is answered by the GET registration
				}
				via := autoVia[p]
				if m.Serves(p, meth) != "" {
					via = viaPrefix[p+" "+lookup]
				}
				if via {
					want = append(want, "own-"+tag, "common")
				}
				if fmt.Sprint(o.Trace) != fmt.Sprint(want) {
					return rig.Violf("instance-oracle", "%s: %s %s ran middlewares %v, this router was given %v", tag, meth, path, o.Trace, want)
				}
				if !rig.EqualSets(o.NodeMethods, m.AllowSet(p)) {
					return rig.Violf("instance-oracle", "%s: %s %s reports methods %v, own table says %v", tag, meth, path, o.NodeMethods, m.AllowSet(p))
				}
			}
		}
		o := rig.Serve(r, rig.Req{Method: "OPTIONS", Path: "*"})
		a := o.Allow()
		sort.Strings(a)
		lo := m.StarLower()
		for _, want := range lo {
			ok := false
			for _, x := range a {
				if x == want {
					ok = true
				}
			}
			if !ok {
				return rig.Violf("instance-oracle", "%s: OPTIONS * Allow=%v lacks %s", tag, a, want)
			}
		}
	}
	if m.R["/d/{x}/{y:\\d+}"] != nil {
		// \d+ is a regexp for this router, whatever interceptors other routers of the process (or of its group) have
		if o := rig.Serve(front, rig.Req{Method: "GET", Path: prefix + "/d/a/notdigits"}); o.Pattern == "/d/{x}/{y:\\d+}" {
			return rig.Violf("instance-oracle", "%s: GET /d/a/notdigits was routed to /d/{x}/{y:\\d+} with %v: the rule is not a regexp here", tag, o.Params)
		}
	}
	if in.Panics {
		r.Handle("/zz/panic/{why}", env.NewH(rig.Action{Op: "panic", V: tag}), nil, "GET")
		for _, meth := range []string{"GET", "HEAD"} { // HEAD: the recovery then writes through the HEAD wrapper
			o := rig.Serve(front, rig.Req{Method: meth, Path: prefix + "/zz/panic/now"})
			if o.Panicked || o.EffStatus() != 500 {
				return rig.Violf("instance-oracle", "%s: %s: the handler's panic must be answered by this router's WithStatusRecovery(500): escaped=%v (%v), status %d", tag, meth, o.Panicked, o.PanicVal, o.EffStatus())
			}
		}
	}
	return nil
}

// quiescent: a router that is no longer modified serves concurrent requests,
// each seeing exactly its own parameters for the whole duration of its handler.
func runQuiescent(c Case) (*rig.Violation, int64) {
	type key struct{}
	var viol atomic.Pointer[rig.Violation]
	var served atomic.Int64
	var qr *mux.Router[*rig.H]
	var qg *mux.Group[*rig.H]
	var nroutes int
	call := func(w http.ResponseWriter, r *http.Request, route types.Route, h *rig.H) {
		// what handlers of a quiescent router may do at any time: read it
		if got := len(qr.Routes()); got != nroutes {
			viol.CompareAndSwap(nil, rig.Violf("quiescent-reads", "Routes() lists %d entries inside a handler, %d before the requests started", got, nroutes))
		}
		if qg != nil {
			if qg.Router("q") != qr || qg.Router("q2") == nil || qg.Router("nope") != nil || len(qg.Routers()) != 2 || len(qg.Routes()["q"]) != nroutes {
				viol.CompareAndSwap(nil, rig.Violf("quiescent-reads", "the group's Router / Routers / Routes accessors disagree with the group as built"))
			}
		}
		want := r.Context().Value(key{}).(map[string]string)
		read := func() map[string]string {
			got := map[string]string{}
			route.Params().Range(func(k, v string) { got[k] = v })
			return got
		}
		first := read()
		runtime.Gosched()
		second := read()
		node := ""
		if n := route.Node(); n != nil {
			node = n.Pattern()
		}
		if !rig.EqualParams(first, want) || !rig.EqualParams(second, want) {
			viol.CompareAndSwap(nil, rig.Violf("quiescent-foreign-params", "request %s on %q saw params %v then %v, its own are %v", r.URL.Path, node, first, second, want))
		}
		if h == nil || h.Kind != "route" || h.ID != r.Header.Get("X-Want") {
			viol.CompareAndSwap(nil, rig.Violf("quiescent-foreign-handler", "request %s ran %v, want %s", r.URL.Path, h, r.Header.Get("X-Want")))
		}
		served.Add(1)
	}
	var opts []mux.Option
	if c.QLock {
		opts = append(opts, mux.WithLock(true))
	}
	nf := &rig.H{ID: "404", Kind: "404"}
	b405 := func(n types.Node) *rig.H { return &rig.H{ID: "405", Kind: "405", Node: n} }
	bopt := func(n types.Node) *rig.H { return &rig.H{ID: "options", Kind: "options", Node: n} }
	var r *mux.Router[*rig.H]
	var front http.Handler
	if c.QGroup {
		qg = mux.NewGroup[*rig.H](call, nf, b405, bopt, opts...)
		qg.New("q2", mux.NewPathVersion("", "never"))
		r = qg.New("q", nil)
		front = qg
	} else {
		r = mux.NewRouter[*rig.H]("q", call, nf, b405, bopt, opts...)
		front = r
	}
	qr = r
	ids := map[string]string{}
	for i, rg := range c.QRegs {
		if rg.Remove {
			continue
		}
		id := fmt.Sprintf("q%d", i)
		if _, panicked := rig.Try(func() { r.Handle(rg.Pattern, &rig.H{ID: id, Kind: "route"}, nil, "GET") }); !panicked {
			ids[rg.Pattern] = id
		}
	}
	var pats []string
	for p := range ids {
		pats = append(pats, p)
	}
	sort.Strings(pats)
	if len(pats) == 0 {
		return nil, 0
	}
	nroutes = len(r.Routes())
	var wg sync.WaitGroup
	start := make(chan struct{})
	for w := 0; w < c.QWorkers; w++ {
		wg.Add(1)
		go func(w int) {
			defer wg.Done()
			<-start
			for i := 0; i < c.QReqs; i++ {
				p := pats[(w+i)%len(pats)]
				path, params := witness(p, strconv.Itoa(w*100000+i))
				req := (&http.Request{Method: "GET", URL: &url.URL{Path: path}, Header: http.Header{"X-Want": {ids[p]}}}).
					WithContext(contextWith(key{}, params))
				rec := &nullWriter{h: http.Header{}}
				if v, panicked := rig.Try(func() { front.ServeHTTP(rec, req) }); panicked {
					viol.CompareAndSwap(nil, rig.Violf("quiescent-fault", "GET %s panicked: %v", path, v))
				}
			}
		}(w)
	}
	close(start)
	wg.Wait()
	return viol.Load(), served.Load()
}

type nullWriter struct{ h http.Header }

func (n *nullWriter) Header() http.Header         { return n.h }
func (n *nullWriter) Write(b []byte) (int, error) { return len(b), nil }
func (n *nullWriter) WriteHeader(int)             {}

func TestChild(t *testing.T) {
	enc := rig.ChildCase()
	if enc == "" {
		t.Skip("not a child process")
	}
	var c Case
	if err := rig.DecodeCase(enc, &c); err != nil {
		fmt.Println("cannot decode case:", err)
		os.Exit(4)
	}
	// (a) this process has done nothing yet: the first probe run is pristine
	v0, viol := runProbe(c)
	if viol != nil {
		rig.ChildViolation(viol)
	}
	sets := map[string]bool{}
	for i, in := range c.Activity {
		for _, rg := range in.Regs {
			sets[fmt.Sprint(rg.Methods)] = true
		}
		if v := runInst(in, fmt.Sprintf("activity-%d", i)); v != nil {
			rig.ChildViolation(v)
		}
	}
	v1, viol := runProbe(c)
	if viol != nil {
		rig.ChildViolation(viol)
	}
	if v0 != v1 {
		rig.ChildViolation(rig.Violf("fresh-router-depends-on-history", "the same program on a brand-new router observed %s in a pristine process and %s after unrelated activity on other instances", v0, v1))
	}
	// (b) distinct instances at the same time
	var wg sync.WaitGroup
	var first atomic.Pointer[rig.Violation]
	start := make(chan struct{})
	for i, in := range c.Parallel {
		wg.Add(1)
		go func(i int, in Inst) {
			defer wg.Done()
			<-start
			if v := runInst(in, fmt.Sprintf("parallel-%d", i)); v != nil {
				first.CompareAndSwap(nil, v)
			}
		}(i, in)
	}
	close(start)
	wg.Wait()
	if v := first.Load(); v != nil {
		rig.ChildViolation(v)
	}
	// (c) quiescent router
	v, served := runQuiescent(c)
	if v != nil {
		rig.ChildViolation(v)
	}
	// a fresh router after all that still behaves like the pristine one
	v2, viol := runProbe(c)
	if viol != nil {
		rig.ChildViolation(viol)
	}
	if v2 != v0 {
		rig.ChildViolation(rig.Violf("fresh-router-depends-on-history", "probe after concurrent activity differs: %s vs pristine %s", v2, v0))
	}
	rig.ChildOK(map[string]float64{"activity_method_sets": float64(len(sets)), "parallel_instances": float64(len(c.Parallel)), "quiescent_requests": float64(served)})
}

// ---- parent -----------------------------------------------------------------

var stats = rig.NewStats("C07",
	"rapid draws (a) a probe program for a brand-new router (0-5 registrations / removals, with or without WithTrace: OPTIONS *, HEAD / OPTIONS / GET / PATCH / HEAD per live pattern on handlers that alternately write a body or only WriteHeader(202) - status, Allow, Node().Methods(), body length and Content-Length observed -, Routes() after every step) and 1-4 unrelated instances (routers, Hosts, groups) with 3-12 registrations over eleven different method sets each; group instances have a sibling router with an interceptor of its own registered under a rule text this router uses as a regexp; a third of the router / group instances have a recovery option and end with a request whose handler panics and is recovered; (b) 2-4 instance programs (router / Hosts / Group.New router, with and without their own lock) each built, mutated and served by its own goroutine; (c) a table, with or without WithLock, then 2-16 goroutines x 10-120 requests with per-request distinct parameter values whose handler reads its parameters, yields, and reads them again. Everything runs in one fresh -race child process per case: the probe runs first (pristine), after the sequential activity and after the concurrent parts, and the three renderings must be identical and satisfy the Allow model; every instance satisfies its own sequential oracle; every quiescent request sees exactly its own parameters and handler; no race report, no fatal error. Non-trivial: the activity used >= 3 distinct method sets, >= 2 instances ran in parallel and >= 2 goroutines served the quiescent router; distinct by hash of the case. Later additions to the generated domain: Other instances also spell every parameter route the other way (captured / ignored), hold a nine-parameter route with a catch-all and send its near miss, and write to the slices mux.Methods() / AnyMethods() returned; the fresh-router observation includes the parameters each probe saw; the quiescent subject is a Group in half of the cases and its handlers call Routes(), Group.Router, Routers and Routes concurrently. The instances' pools hold a pair of routes whose texts agree once the braces are removed ({y:\\\\d+}.t and {y:\\\\d+.t}).",
	"interleavings are sampled by the Go scheduler under GOMAXPROCS 2/4/16",
	"instances are used from one goroutine each: the property is about distinct instances, not about sharing one")

func check(c Case, st *rig.Stats) error {
	enc, err := rig.EncodeCase(c)
	if err != nil {
		return err
	}
	tries := 1
	if os.Getenv("VERIF_REPLAY") != "" {
		tries = 20
		if n, err := strconv.Atoi(os.Getenv("VERIF_REPLAY_TRIES")); err == nil && n > 0 {
			tries = n
		}
	}
	var res rig.ChildResult
	for i := 0; i < tries; i++ {
		res = rig.RunChild("TestChild", enc, c.Procs, 120*time.Second)
		if res.Kind != "ok" {
			break
		}
	}
	switch res.Kind {
	case "ok":
		nt := res.Stats["activity_method_sets"] >= 3 && res.Stats["parallel_instances"] >= 2 && c.QWorkers >= 2 && res.Stats["quiescent_requests"] > 0
		st.Eval(c, nt, fmt.Sprintf("procs=%d", c.Procs), fmt.Sprintf("qlock=%v", c.QLock))
		return nil
	case "timeout", "other":
		fmt.Printf("INCONCLUSIVE child (%s):\n%s\n", res.Kind, tail(res.Detail, 3000))
		st.Class("inconclusive-child:" + res.Kind)
		return nil
	}
	if rig.Excluded(res.Sig) {
		st.Exclude(res.Sig)
		return nil
	}
	return rig.Violf(res.Sig, "child process: %s", tail(res.Detail, 6000))
}

func tail(s string, n int) string {
	if len(s) > n {
		return "…" + s[len(s)-n:]
	}
	return s
}

func TestProp(t *testing.T) { rig.RunProp(t, stats, gen, check) }
