package c07

import "context"

func contextWith(k, v any) context.Context { return context.WithValue(context.Background(), k, v) }
