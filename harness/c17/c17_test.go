// C17 — registration is validated atomically: a rejected Handle changes nothing.
package c17

import (
	"encoding/json"
	"fmt"
	"sort"
	"strings"
	"testing"
	"unicode/utf8"

	"pgregory.net/rapid"

	"verif/harness/life"
	"verif/harness/pat"
	"verif/harness/ref"
	"verif/harness/rig"
)

type Call struct {
	Label   string   `json:"label"`
	Pattern string   `json:"pattern"`
	Methods []string `json:"methods"`
}

type Case struct {
	Icpt    string    `json:"icpt"`
	Trace   bool      `json:"trace"`
	Pool    []string  `json:"pool"`
	Ops     []life.Op `json:"ops"`
	Calls   []Call    `json:"calls"`
	Paths   []string  `json:"paths"`
	Variant int       `json:"variant"`
}

var faults = []string{"{}", "{:r}", "}{", "{x}{y}", "{x:[}", "{a}/{a}", "{-}", "{x", "{x:(}", "{x:a)|(b}"}

func rename(t *rapid.T, p *pat.Pattern) string {
	// identical up to parameter names / the '-' flag
	var sb strings.Builder
	changed := false
	k := 0
	for _, a := range p.Atoms {
		if a.IsLit() {
			sb.WriteByte(a.B)
			continue
		}
		name, ign := a.P.Name, a.P.Ignore
		colon := strings.HasSuffix(a.P.Token, ":}") // the {name:} spelling of a parameter without a rule
		switch rapid.IntRange(0, 3).Draw(t, "renameHow") {
		case 0:
			name = fmt.Sprintf("zz%d", k)
			changed = true
		case 1:
			ign = !ign
			changed = true
		case 2:
			if a.P.Rule == "" {
				colon = !colon // same name, the other spelling: still the same route
				changed = true
			}
		}
		k++
		sb.WriteByte('{')
		if ign {
			sb.WriteByte('-')
		}
		sb.WriteString(name)
		if a.P.Rule != "" {
			sb.WriteString(":" + a.P.Rule)
		} else if colon {
			sb.WriteByte(':')
		}
		sb.WriteByte('}')
	}
	if !changed {
		return ""
	}
	return sb.String()
}

func gen(t *rapid.T) Case {
	cfg := pat.GenCfg(t, true)
	c := Case{Icpt: cfg.IcptName, Trace: rapid.IntRange(0, 3).Draw(t, "trace") == 0}
	c.Pool = pat.GenPool(t, cfg, rapid.IntRange(2, rig.Up(10)).Draw(t, "npool"))
	nops := rapid.IntRange(1, rig.Up(12)).Draw(t, "nops")
	if rapid.IntRange(0, 5).Draw(t, "single") == 0 {
		nops = 1 // tables with exactly one route make the name-equivalence clause decidable
	}
	var liveEnd, ever []string
	c.Ops, liveEnd, ever = life.GenOpsT(t, cfg, c.Pool, nops, life.GenOpts{Hostile: false, NewMethods: true, Trace: c.Trace})
	var dead []*pat.Pattern // registered at some point, gone at the end: their nodes may still be in the tree
	for _, p := range ever {
		gone := true
		for _, q := range liveEnd {
			if p == q {
				gone = false
			}
		}
		if gone {
			dead = append(dead, pat.MustParse(p, cfg.Icpt))
		}
	}
	var parsed []*pat.Pattern
	for _, p := range c.Pool {
		parsed = append(parsed, pat.MustParse(p, cfg.Icpt))
	}
	// a pattern that dies while a longer pattern keeps its node in the tree: registered, extended,
	// then emptied method by method (which leaves different internal state than Remove(pattern))
	var pairs [][2]string
	for _, p := range parsed {
		for _, q := range c.Pool {
			if p.NParams() > 0 && len(q) > len(p.Src) && strings.HasPrefix(q, p.Src) {
				pairs = append(pairs, [2]string{p.Src, q})
			}
		}
	}
	if len(pairs) > 0 && rapid.IntRange(0, 2).Draw(t, "deadWithExtension") == 0 {
		pq := rapid.SampledFrom(pairs).Draw(t, "deadPair")
		c.Ops = append(c.Ops,
			life.Op{Kind: "remove", Pattern: pq[0]}, life.Op{Kind: "remove", Pattern: pq[1]},
			life.Op{Kind: "handle", Pattern: pq[0], Methods: []string{"GET"}},
			life.Op{Kind: "handle", Pattern: pq[1], Methods: []string{"GET"}})
		if rapid.Bool().Draw(t, "deadByMethods") {
			c.Ops = append(c.Ops, life.Op{Kind: "removeMethods", Pattern: pq[0], Methods: []string{"GET"}})
		} else {
			c.Ops = append(c.Ops, life.Op{Kind: "remove", Pattern: pq[0]})
		}
		dead = append(dead, pat.MustParse(pq[0], cfg.Icpt), pat.MustParse(pq[0], cfg.Icpt))
	}
	reserved := []string{"HEAD", "OPTIONS"}
	if c.Trace {
		reserved = append(reserved, "TRACE")
	}
	for i, n := 0, rapid.IntRange(1, 5).Draw(t, "ncalls"); i < n; i++ {
		base := rapid.SampledFrom(parsed).Draw(t, "callBase")
		if len(dead) > 0 && rapid.IntRange(0, 2).Draw(t, "fromDead") == 0 {
			base = rapid.SampledFrom(dead).Draw(t, "callBaseDead")
		}
		valid := rapid.Permutation(ref.AnyMethods).Draw(t, "validPerm")[:rapid.IntRange(0, 3).Draw(t, "nvalid")]
		call := Call{Pattern: base.Src}
		ins := func(ms []string, bad string) []string {
			pos := rapid.IntRange(0, len(ms)).Draw(t, "badPos")
			out := append([]string{}, ms[:pos]...)
			out = append(out, bad)
			return append(out, ms[pos:]...)
		}
		switch k := rapid.IntRange(0, 8).Draw(t, "callKind"); k {
		case 0:
			call.Label = "reserved-method"
			call.Methods = ins(valid, rapid.SampledFrom(reserved).Draw(t, "reserved"))
		case 1:
			call.Label = "unknown-method"
			unknown := []string{"BOGUS", "get", "", "Get", "QUERY", " GET", "POST ", "PUT,DELETE", "GET\n", "PO\u017fT", "\xff"}
			for _, m := range valid {
				// one of the call's own methods with white space around it: no method name, wherever it stands
				unknown = append(unknown, " "+m, m+" ", "\t"+m+"\r\n", " "+m, m+" ")
			}
			call.Methods = ins(valid, rapid.SampledFrom(unknown).Draw(t, "unknown"))
		case 2:
			call.Label = "duplicate-in-list"
			if len(valid) == 0 {
				valid = []string{"GET"}
			}
			call.Methods = ins(valid, valid[rapid.IntRange(0, len(valid)-1).Draw(t, "dupIdx")])
		case 3:
			call.Label = "maybe-duplicate-pattern+method"
			call.Methods = ins(valid, rapid.SampledFrom(ref.AnyMethods).Draw(t, "dupM"))
		case 4:
			call.Label = "any-methods"
			call.Methods = nil
		case 5:
			call.Label = "malformed-pattern"
			f := rapid.SampledFrom(faults).Draw(t, "fault")
			cut := rapid.IntRange(0, len(base.Atoms)).Draw(t, "faultCut")
			var sb strings.Builder
			for j, a := range base.Atoms {
				if j == cut {
					sb.WriteString(f)
				}
				if a.IsLit() {
					sb.WriteByte(a.B)
				} else {
					sb.WriteString(a.P.Token)
				}
			}
			if cut == len(base.Atoms) {
				sb.WriteString(f)
			}
			call.Pattern = sb.String()
			if rapid.IntRange(0, 9).Draw(t, "emptyPattern") == 0 {
				call.Pattern = ""
			}
			call.Methods = valid
		case 6:
			call.Label = "renamed-parameters"
			if r := rename(t, base); r != "" {
				call.Pattern = r
			}
			call.Methods = valid
		default:
			call.Label = "fresh-pattern"
			call.Pattern = pat.GenPattern(t, cfg)
			call.Methods = valid
		}
		c.Calls = append(c.Calls, call)
	}
	for i, n := 0, rapid.IntRange(1, 6).Draw(t, "npaths"); i < n; i++ {
		c.Paths = append(c.Paths, pat.GenPath(t, parsed))
	}
	c.Variant = rapid.IntRange(0, 11).Draw(t, "variant")
	return c
}

type ob struct {
	M, Path, Kind, ID, Pattern, Allow string
	Status                            int
	Params                            map[string]string
	Panic                             string
}

// observe renders everything a client or the application can see.
func observe(s *life.Sys, c Case, extra []string) string {
	var v struct {
		Routes map[string][]string
		Obs    []ob
	}
	if _, panicked := rig.Try(func() { v.Routes = s.R.Routes() }); panicked {
		v.Routes = map[string][]string{"<Routes() panicked>": nil}
	}
	for k := range v.Routes {
		sort.Strings(v.Routes[k])
	}
	probe := func(m, path string) {
		o := s.Get(m, path)
		x := ob{M: m, Path: path, Kind: o.BaseKind, ID: o.HandlerID, Pattern: o.Pattern, Allow: o.Header.Get("Allow"), Status: o.Status, Params: o.Params}
		if o.Panicked {
			x.Panic = fmt.Sprint(o.PanicVal)
		}
		v.Obs = append(v.Obs, x)
	}
	for _, p := range s.LiveParsed() {
		if path, _, ok := p.Witness(c.Variant); ok {
			for _, m := range life.ProbeMethods {
				probe(m, path)
			}
		}
	}
	for _, path := range append(append([]string{}, c.Paths...), extra...) {
		for _, m := range []string{"GET", "POST", "OPTIONS", "DELETE"} {
			probe(m, path)
		}
	}
	probe("OPTIONS", "*")
	probe("GET", "*")
	b, _ := json.Marshal(v)
	return string(b)
}

func firstDiff(a, b string) string {
	i := 0
	for i < len(a) && i < len(b) && a[i] == b[i] {
		i++
	}
	lo := i - 200
	if lo < 0 {
		lo = 0
	}
	hi := func(s string) int {
		if i+200 < len(s) {
			return i + 200
		}
		return len(s)
	}
	return fmt.Sprintf("before …%s… / after …%s…", a[lo:hi(a)], b[lo:hi(b)])
}

func check(c Case, st *rig.Stats) error {
	env := rig.NewEnv()
	s := life.NewSys(env, c.Icpt, rig.Opts{Trace: c.Trace})
	for _, op := range c.Ops {
		s.Apply(op)
		if v := s.Complaint(); v != nil {
			return v
		}
	}
	nontriv := false
	var classes []string
	for i, call := range c.Calls {
		pp, perr := pat.Parse(call.Pattern, s.Icpt)
		var extra []string
		if perr == nil {
			if w, _, ok := pp.Witness(c.Variant); ok {
				extra = append(extra, w)
			}
		}
		live := s.LiveParsed()
		// expectations derivable from the statement
		mustReject, mustAccept := "", false
		methodsReason := s.M.RejectReason(call.Pattern, call.Methods)
		if strings.HasPrefix(methodsReason, "duplicate pattern+method") {
			mustReject = methodsReason
		}
		equiv := ""
		if perr == nil {
			for _, q := range live {
				if q.Src != call.Pattern && pat.NameEquivalent(pp, q) {
					equiv = q.Src
				}
			}
			if equiv != "" && len(s.M.Live()) == 1 {
				mustReject = "identical up to parameter names to the only other route " + equiv
			}
			allWellFormed := true // an accepted pattern outside the harness' grammar (e.g. "{x{-x}") makes equivalence undecidable here
			for _, q := range s.M.Live() {
				if s.Parsed(q) == nil {
					allWellFormed = false
					classes = append(classes, "table-holds-a-pattern-outside-the-grammar(must-accept-not-judged)")
				}
			}
			if equiv == "" && methodsReason == "" && utf8.ValidString(call.Pattern) && allWellFormed {
				// "never rejected as ambiguous": the same call must succeed on an empty
				// router with the same interceptors, so a rejection here is the table's doing
				fresh := rig.NewEnv().NewRouter("fresh", rig.Opts{Trace: c.Trace, Icpt: s.Icpt})
				if _, p := rig.Try(func() { fresh.Handle(call.Pattern, env.NewH(), nil, call.Methods...) }); !p {
					mustAccept = true
				}
			}
		}
		before := observe(s, c, extra)
		h := env.NewH()
		val, panicked := rig.Try(func() { s.R.Handle(call.Pattern, h, nil, call.Methods...) })
		after := observe(s, c, extra)
		where := fmt.Sprintf("call %d Handle(%q, %v) [%s] on live table %v", i, call.Pattern, call.Methods, call.Label, s.M.Live())
		if panicked {
			classes = append(classes, "rejected:"+call.Label)
			if before != after {
				return rig.Violf("rejected-call-left-a-trace", "%s panicked (%v) but the observable state changed: %s", where, val, firstDiff(before, after))
			}
			if mustAccept {
				return rig.Violf("rejected-as-ambiguous", "%s was rejected (%v) although an empty router accepts the same call, the pattern is not identical up to parameter names to any live route, and the methods are valid and new", where, val)
			}
			// non-trivial: a valid method stood before the offending one, or the pattern shares a prefix with a live route
			expanded := ref.Expand(call.Methods)
			for k := range expanded {
				if s.M.RejectReason(call.Pattern, expanded[:k+1]) != "" {
					if k > 0 {
						nontriv = true
						classes = append(classes, "valid-methods-before-offender")
					}
					break
				}
			}
			if perr == nil {
				for _, q := range live {
					if d := pat.FirstDiff(pp, q); d > 0 && q.Src != call.Pattern {
						nontriv = true
					}
				}
			}
		} else {
			classes = append(classes, "accepted:"+call.Label)
			if mustReject != "" {
				return rig.Violf("accepted-but-must-reject", "%s was accepted: %s", where, mustReject)
			}
			s.M.Handle(call.Pattern, h.ID, call.Methods)
		}
	}
	st.Eval(c, nontriv, classes...)
	return nil
}

var stats = rig.NewStats("C17",
	"rapid draws a table (history of 1-12 steps over a witness-safe pool, one case in six with a single route) and 1-5 Handle calls engineered to be rejected (reserved / unknown / duplicate method inserted at a drawn position among valid ones, duplicate pattern+method, pattern with an injected syntax fault, pattern renamed in parameter names or '-' flags) or accepted (fresh patterns); the whole observable state (Routes(), handler id / route / params / status / Allow for every live witness x ten methods, for generated ambiguous paths, for the call's own witness, OPTIONS * and GET *) is rendered before and after each call and must be byte-identical when the call panicked. Duplicate pattern+method and a rename of the only route must be rejected; a well-formed pattern not name-equivalent to any live route with valid new methods must be accepted. Non-trivial: a rejected call had a valid method before the offending one or its pattern shares a leading atom with a live route; distinct by hash of the case. Later additions to the generated domain: Unknown method names include padded spellings of the call's own valid methods.",
	"name equivalence is judged by the harness' own token-wise comparison (same literals, same kind and rule at every parameter position)")

func TestProp(t *testing.T) { rig.RunProp(t, stats, gen, check) }

func FuzzProp(f *testing.F) { rig.FuzzProp(f, stats, gen, check) }
