// Package life is the shared route-table lifecycle machinery: operations as
// plain data, their application to a real router (directly or through the
// Prefix / Resource facades) and to the table model, and history generators.
package life

import (
	"fmt"
	"sort"
	"strings"
	"unicode/utf8"

	"pgregory.net/rapid"

	"verif/harness/pat"
	"verif/harness/ref"
	"verif/harness/rig"
)

// Op is one step of a history.
type Op struct {
	Kind     string   `json:"kind"` // handle handleMany remove removeMethods clean prefixClean
	Pattern  string   `json:"pattern,omitempty"`
	Patterns []string `json:"patterns,omitempty"`
	Methods  []string `json:"methods,omitempty"`
	// Via: "" = Router; "prefix" = Prefix(Pattern[:Cut]) + Pattern[Cut:]; "resource" = Resource(Pattern)
	Via    string `json:"via,omitempty"`
	Cut    int    `json:"cut,omitempty"`
	Prefix string `json:"prefix,omitempty"` // prefixClean
}

func (o Op) String() string {
	s := o.Kind
	if o.Via != "" {
		s += "[" + o.Via + fmt.Sprint(o.Cut) + "]"
	}
	switch o.Kind {
	case "handleMany":
		s += fmt.Sprintf(" %q", o.Patterns)
	case "prefixClean":
		s += fmt.Sprintf(" %q", o.Prefix)
	case "clean":
	default:
		s += fmt.Sprintf(" %q", o.Pattern)
	}
	if len(o.Methods) > 0 {
		s += fmt.Sprintf(" %v", o.Methods)
	}
	return s
}

// PM is a (pattern, method) pair.
type PM struct{ P, M string }

// Sys is a real router together with its model.
type Sys struct {
	Env    *rig.Env
	R      *rig.Router
	M      *ref.Table
	Icpt   pat.Icpt
	parsed map[string]*pat.Pattern
	// Gone maps pairs that were removed (and are not live now) to the handler id they had.
	Gone map[PM]string
	// Unjustified collects Handle calls the router refused although nothing the library documents as a reason for
	// refusal applies: the pattern is well-formed, its methods are valid, free and not repeated, and no live route
	// differs from it only in parameter names.
	Unjustified []string
}

// Complaint turns the first unjustified refusal into a violation (nil when there is none).
func (s *Sys) Complaint() *rig.Violation {
	if len(s.Unjustified) == 0 {
		return nil
	}
	return rig.Violf("handle-refused-without-reason", "%s", s.Unjustified[0])
}

func NewSys(env *rig.Env, icptName string, opts rig.Opts) *Sys {
	ic := pat.IcptSets[icptName]
	opts.Icpt = ic
	return &Sys{Env: env, R: env.NewRouter("r", opts), M: ref.NewTable(opts.Trace), Icpt: ic,
		parsed: map[string]*pat.Pattern{}, Gone: map[PM]string{}}
}

// Parsed returns the (cached) parse of a well-formed pattern.
func (s *Sys) Parsed(p string) *pat.Pattern {
	if x, ok := s.parsed[p]; ok {
		return x
	}
	x, err := pat.Parse(p, s.Icpt)
	if err != nil {
		x = nil
	}
	s.parsed[p] = x
	return x
}

// LiveParsed returns the parsed live patterns (sorted by source).
func (s *Sys) LiveParsed() []*pat.Pattern {
	var out []*pat.Pattern
	for _, p := range s.M.Live() {
		if x := s.Parsed(p); x != nil {
			out = append(out, x)
		}
	}
	return out
}

// StepResult says what a step did.
type StepResult struct {
	Panicked bool
	PanicVal any
	Touched  map[PM]bool // pairs whose registration changed (added or removed)
	Removal  bool        // the step is a Remove / Clean kind
}

func (s *Sys) handle(op Op, p string, h *rig.H, methods []string) (any, bool) {
	return rig.Try(func() {
		switch op.Via {
		case "prefix":
			cut := op.Cut
			if cut > len(p) {
				cut = len(p)
			}
			s.R.Prefix(p[:cut]).Handle(p[cut:], h, nil, methods...)
		case "resource":
			s.R.Resource(p).Handle(h, nil, methods...)
		default:
			s.R.Handle(p, h, nil, methods...)
		}
	})
}

// Apply runs op on the router and on the model. For Handle the model follows
// the router's verdict (a panic means rejected, nothing changes in the model).
func (s *Sys) Apply(op Op) StepResult {
	res := StepResult{Touched: map[PM]bool{}}
	before := s.M.Clone()
	switch op.Kind {
	case "handle", "handleMany":
		ps := op.Patterns
		if op.Kind == "handle" {
			ps = []string{op.Pattern}
		}
		for _, p := range ps {
			h := s.Env.NewH()
			if v, panicked := s.handle(op, p, h, op.Methods); panicked {
				res.Panicked, res.PanicVal = true, v
				if pp := s.Parsed(p); pp != nil && utf8.ValidString(p) && s.M.RejectReason(p, op.Methods) == "" {
					variant := false
					for _, q := range s.LiveParsed() {
						variant = variant || (q.Src != p && pat.NameEquivalent(pp, q))
					}
					if !variant {
						s.Unjustified = append(s.Unjustified, fmt.Sprintf("Handle(%q, %v) via %q was refused with %v, but the pattern is well-formed, its methods are valid and free, and no live route differs from it only in parameter names; live %v", p, op.Methods, op.Via, v, s.M.Live()))
					}
				}
				continue
			}
			s.M.Handle(p, h.ID, op.Methods)
		}
	case "remove", "removeMethods":
		res.Removal = true
		var ms []string
		if op.Kind == "removeMethods" {
			ms = op.Methods
		}
		v, panicked := rig.Try(func() {
			switch op.Via {
			case "prefix":
				cut := op.Cut
				if cut > len(op.Pattern) {
					cut = len(op.Pattern)
				}
				s.R.Prefix(op.Pattern[:cut]).Remove(op.Pattern[cut:], ms...)
			case "resource":
				if op.Kind == "remove" {
					s.R.Resource(op.Pattern).Clean()
				} else {
					s.R.Resource(op.Pattern).Remove(ms...)
				}
			default:
				s.R.Remove(op.Pattern, ms...)
			}
		})
		res.Panicked, res.PanicVal = panicked, v
		if op.Kind == "removeMethods" && len(ms) == 0 {
			s.M.Remove(op.Pattern) // Remove(p) with an empty list removes everything
		} else {
			s.M.Remove(op.Pattern, ms...)
		}
	case "clean":
		res.Removal = true
		v, panicked := rig.Try(func() { s.R.Clean() })
		res.Panicked, res.PanicVal = panicked, v
		s.M.Clean()
	case "prefixClean":
		res.Removal = true
		v, panicked := rig.Try(func() { s.R.Prefix(op.Prefix).Clean() })
		res.Panicked, res.PanicVal = panicked, v
		s.M.CleanPrefix(op.Prefix)
	default:
		panic("harness: unknown op " + op.Kind)
	}
	// touched pairs and the gone set
	for p, ms := range before.R {
		for m, id := range ms {
			if s.M.Serves(p, m) != id {
				res.Touched[PM{p, m}] = true
				if !s.M.Has(p, m) {
					s.Gone[PM{p, m}] = id
				}
			}
		}
	}
	for p, ms := range s.M.R {
		for m, id := range ms {
			if before.Serves(p, m) != id {
				res.Touched[PM{p, m}] = true
			}
			delete(s.Gone, PM{p, m})
		}
	}
	return res
}

// Get sends one request.
func (s *Sys) Get(method, path string) *rig.Outcome {
	return rig.Serve(s.R, rig.Req{Method: method, Path: path})
}

// ProbeMethods are the methods every probe set is crossed with.
var ProbeMethods = []string{"GET", "HEAD", "POST", "PUT", "PATCH", "DELETE", "CONNECT", "OPTIONS", "TRACE", "BOGUS"}

// GenOpts biases the history generator.
type GenOpts struct {
	Facades    bool // use Prefix / Resource facades
	Hostile    bool // hostile Remove arguments (HEAD, OPTIONS, "", unknown, never-registered)
	NewMethods bool // Handle draws only methods the pattern does not have yet
	Trace      bool
}

var hostileMethods = []string{"HEAD", "OPTIONS", "", "BOGUS", "get", "TRACE"}

func genMethods(t *rapid.T, avoid map[string]string, newOnly bool, trace bool) []string {
	if rapid.IntRange(0, 7).Draw(t, "anyMethods") == 0 {
		return nil // Any
	}
	var pool []string
	all := ref.AnyMethods
	if !trace {
		all = append(append([]string{}, ref.AnyMethods...), "TRACE") // without a TRACE handler TRACE is registered like any method
	}
	for _, m := range all {
		if !newOnly || avoid == nil || avoid[m] == "" {
			pool = append(pool, m)
		}
	}
	if len(pool) == 0 {
		pool = all
	}
	n := rapid.IntRange(1, 3).Draw(t, "nmethods")
	if n > len(pool) {
		n = len(pool)
	}
	perm := rapid.Permutation(pool).Draw(t, "methods")
	ms := perm[:n]
	if rapid.IntRange(0, 15).Draw(t, "repeatMethod") == 0 {
		// a method named twice in one call: must be refused as a whole
		ms = append(append([]string{}, ms...), ms[rapid.IntRange(0, len(ms)-1).Draw(t, "repeatIdx")])
	}
	return ms
}

// tracker is the generation-time approximation of the model, used only to bias
// choices (pick live patterns, avoid duplicate registrations).
type tracker struct {
	tb   *ref.Table
	icpt pat.Icpt
}

func (g *tracker) accept(p string, methods []string) bool {
	if g.tb.RejectReason(p, methods) != "" {
		return false
	}
	pp, err := pat.Parse(p, g.icpt)
	if err != nil {
		return false
	}
	for _, q := range g.tb.Live() {
		if q == p {
			continue
		}
		if qq, err := pat.Parse(q, g.icpt); err == nil && pat.NameEquivalent(pp, qq) {
			return false
		}
	}
	return true
}

// GenOps draws a history of n steps over the pool.
func GenOps(t *rapid.T, cfg pat.Cfg, pool []string, n int, o GenOpts) []Op {
	ops, _, _ := GenOpsT(t, cfg, pool, n, o)
	return ops
}

// GenOpsT also returns what the generator believes is live at the end and which
// patterns it registered at some point (both only approximate the real router).
func GenOpsT(t *rapid.T, cfg pat.Cfg, pool []string, n int, o GenOpts) ([]Op, []string, []string) {
	g := &tracker{tb: ref.NewTable(o.Trace), icpt: cfg.Icpt}
	ever := map[string]bool{}
	var ops []Op
	via := func(op *Op, p string) {
		if !o.Facades {
			return
		}
		switch rapid.IntRange(0, 5).Draw(t, "via") {
		case 0:
			op.Via = "prefix"
			op.Cut = rapid.IntRange(0, len(p)).Draw(t, "cut")
		case 1:
			op.Via = "resource"
		}
	}
	pickLive := func(label string) (string, bool) {
		live := g.tb.Live()
		if len(live) > 0 && rapid.IntRange(0, 4).Draw(t, label+"Live") > 0 {
			return rapid.SampledFrom(live).Draw(t, label), true
		}
		return rapid.SampledFrom(pool).Draw(t, label+"Any"), false
	}
	// opening template (one history in five, when the pool has a pattern and an extension of it): both are registered, in
	// either order, and a Prefix.Clean lands between them - right behind the shorter pattern or a byte or two into the
	// extension - so that exactly one of two nodes that share their text must go
	var pairs [][2]string
	for _, a := range pool {
		for _, b := range pool {
			if len(b) > len(a) && strings.HasPrefix(b, a) && len(pairs) < 40 {
				pairs = append(pairs, [2]string{a, b})
			}
		}
	}
	if len(pairs) > 0 && n >= 3 && rapid.IntRange(0, 4).Draw(t, "opening") == 0 {
		pr := rapid.SampledFrom(pairs).Draw(t, "openPair")
		first, second := pr[0], pr[1]
		if rapid.Bool().Draw(t, "openSwap") {
			first, second = second, first
		}
		for _, p := range []string{first, second} {
			op := Op{Kind: "handle", Pattern: p, Methods: genMethods(t, g.tb.R[p], o.NewMethods, o.Trace)}
			if g.accept(p, op.Methods) {
				g.tb.Handle(p, "x", op.Methods)
				ever[p] = true
			}
			ops = append(ops, op)
		}
		if rapid.IntRange(0, 4).Draw(t, "openRemoveTwice") == 0 {
			// ... or the shorter pattern is removed, and removed again
			for k := 0; k < 2; k++ {
				ops = append(ops, Op{Kind: "remove", Pattern: pr[0]})
			}
			g.tb.Remove(pr[0])
			n--
		} else if have := g.tb.R[pr[0]]; len(have) > 0 && rapid.IntRange(0, 2).Draw(t, "openDrain") == 0 {
			// ... or the shorter pattern is emptied by naming every method it has: its node stays, because the extension
			// hangs below it, but it is a route no longer
			var ms []string
			for m := range have {
				ms = append(ms, m)
			}
			sort.Strings(ms)
			op := Op{Kind: "removeMethods", Pattern: pr[0], Methods: ms}
			g.tb.Remove(pr[0], ms...)
			ops = append(ops, op)
		} else {
			cut := len(pr[0]) + rapid.IntRange(0, min(2, len(pr[1])-len(pr[0]))).Draw(t, "openCut")
			for cut < len(pr[1]) && !utf8.RuneStart(pr[1][cut]) {
				cut++
			}
			op := Op{Kind: "prefixClean", Prefix: pr[1][:cut]}
			g.tb.CleanPrefix(op.Prefix)
			ops = append(ops, op)
		}
		n -= 3
	}
	for i := 0; i < n; i++ {
		k := rapid.IntRange(0, 19).Draw(t, "opKind")
		switch {
		case k < 7 || len(g.tb.R) == 0 && k < 14:
			p := rapid.SampledFrom(pool).Draw(t, "hp")
			op := Op{Kind: "handle", Pattern: p, Methods: genMethods(t, g.tb.R[p], o.NewMethods, o.Trace)}
			via(&op, p)
			if g.accept(p, op.Methods) {
				g.tb.Handle(p, "x", op.Methods)
				ever[p] = true
			}
			ops = append(ops, op)
		case k < 10:
			m := rapid.IntRange(2, len(pool)).Draw(t, "manyN")
			if m > 10 && !(len(pool) > 16 && rapid.IntRange(0, 2).Draw(t, "manyAll") == 0) {
				m = 10 // a pool with a structure of unusual size is registered in one go now and then
			}
			perm := rapid.Permutation(pool).Draw(t, "manyPerm")
			op := Op{Kind: "handleMany", Patterns: perm[:m], Methods: genMethods(t, nil, false, o.Trace)}
			for _, p := range op.Patterns {
				if g.accept(p, op.Methods) {
					g.tb.Handle(p, "x", op.Methods)
					ever[p] = true
				}
			}
			ops = append(ops, op)
		case k < 14:
			p, _ := pickLive("rp")
			op := Op{Kind: "remove", Pattern: p}
			via(&op, p)
			g.tb.Remove(p)
			ops = append(ops, op)
			if rapid.IntRange(0, 3).Draw(t, "removeAgain") == 0 {
				ops = append(ops, op) // the same removal once more: nothing is left to remove, and nothing else may change
				i++
			}
		case k < 17:
			p, _ := pickLive("rmp")
			var ms []string
			have := g.tb.R[p]
			nm := rapid.IntRange(1, 3).Draw(t, "rmN")
			for j := 0; j < nm; j++ {
				c := rapid.IntRange(0, 9).Draw(t, "rmKind")
				switch {
				case c < 6 && len(have) > 0:
					var hs []string
					for m := range have {
						hs = append(hs, m)
					}
					sort.Strings(hs)
					ms = append(ms, rapid.SampledFrom(hs).Draw(t, "rmHave"))
				case c < 8 || !o.Hostile:
					ms = append(ms, rapid.SampledFrom(append([]string{"TRACE"}, ref.AnyMethods...)).Draw(t, "rmAny"))
				default:
					ms = append(ms, rapid.SampledFrom(hostileMethods).Draw(t, "rmHostile"))
				}
			}
			if len(have) > 0 && rapid.IntRange(0, 3).Draw(t, "drain") == 0 {
				// every registered method by name: the pattern dies, but not through Remove(pattern)
				ms = ms[:0]
				for m := range have {
					ms = append(ms, m)
				}
				sort.Strings(ms)
			}
			op := Op{Kind: "removeMethods", Pattern: p, Methods: ms}
			via(&op, p)
			g.tb.Remove(p, ms...)
			ops = append(ops, op)
			if rapid.IntRange(0, 3).Draw(t, "removeMethodsAgain") == 0 {
				ops = append(ops, op)
				i++
			}
		case k < 18:
			ops = append(ops, Op{Kind: "clean"})
			g.tb.Clean()
		default:
			p, _ := pickLive("pcp")
			cut := rapid.IntRange(0, len(p)).Draw(t, "pcCut")
			if rapid.Bool().Draw(t, "pcAtToken") {
				// right behind a parameter token, or behind the separator that follows it
				var ends []int
				for i := 0; i < len(p); i++ {
					if p[i] == '}' {
						ends = append(ends, i+1)
						if i+2 <= len(p) && i+1 < len(p) {
							ends = append(ends, i+2)
						}
					}
				}
				if len(ends) > 0 {
					cut = rapid.SampledFrom(ends).Draw(t, "pcTokenEnd")
				}
			}
			if !o.Facades {
				// still a Router-level operation family: Prefix(s).Clean is the only prefix clean there is
			}
			op := Op{Kind: "prefixClean", Prefix: p[:cut]}
			g.tb.CleanPrefix(op.Prefix)
			ops = append(ops, op)
		}
	}
	var everL []string
	for p := range ever {
		everL = append(everL, p)
	}
	sort.Strings(everL)
	return ops, g.tb.Live(), everL
}

// Siblings reports, for pattern p among the live patterns, whether another live
// pattern shares its text up to some parameter position of p (a sibling branch
// the matcher could have tried), and how many children the busiest shared
// parent has.
func Siblings(p *pat.Pattern, live []*pat.Pattern) (paramSibling bool, maxKids int) {
	for i := range p.Atoms {
		kids := map[string]bool{}
		for _, q := range live {
			if len(q.Atoms) <= i || pat.FirstDiff(p, q) < i {
				continue
			}
			a := q.Atoms[i]
			if a.IsLit() {
				kids["L"+string(a.B)] = true
			} else {
				k := "P" + a.P.Token
				if len(q.Atoms) > i+1 {
					k += string(q.Atoms[i+1].B)
				}
				kids[k] = true
			}
		}
		if len(kids) > maxKids {
			maxKids = len(kids)
		}
		if len(kids) >= 2 && (!p.Atoms[i].IsLit() || hasParamKid(kids)) {
			paramSibling = true
		}
	}
	return
}

func hasParamKid(kids map[string]bool) bool {
	for k := range kids {
		if strings.HasPrefix(k, "P") {
			return true
		}
	}
	return false
}
