// C18 — TRACE handling follows the WithTrace option.
package c18

import (
	"fmt"
	"html"
	"net/http"
	"net/http/httputil"
	"net/url"
	"strings"
	"testing"

	"github.com/issue9/mux/v9"
	"github.com/issue9/mux/v9/types"
	"pgregory.net/rapid"

	"verif/harness/ref"
	"verif/harness/rig"
)

type Reg struct {
	Pattern string   `json:"pattern"`
	Methods []string `json:"methods"`
	Remove  bool     `json:"remove"`
	Clean   bool     `json:"clean,omitempty"` // Router.Clean() instead
}

type TReq struct {
	Path   string              `json:"path"`
	Header map[string][]string `json:"header"`
	Body   string              `json:"body"`
	Host   string              `json:"host"`
	// Unknown: the body is sent without a declared length (ContentLength -1)
	Unknown bool `json:"unknown"`
	// Chunked: the request arrives with Transfer-Encoding: chunked (the dump then shows the chunk framing)
	Chunked bool `json:"chunked,omitempty"`
	// FailAt > 0: the client goes away after that many bytes of the reply; the request that follows must be
	// answered as if nothing had happened
	FailAt int `json:"fail_at,omitempty"`
}

type Case struct {
	Trace     bool    `json:"trace"`
	TraceBody bool    `json:"trace_body"`
	Regs      []Reg   `json:"regs"`
	Uses      [][]int `json:"uses"` // Use calls interleaved: Uses[i] happens before Regs[i]
	Reqs      []TReq  `json:"reqs"`
	// ValueT: the second part uses a router whose handler type is a plain struct value; its TRACE handler is the
	// value {ZeroT}, which for 0 is the zero value of the type - a configured handler all the same
	ZeroT int `json:"zero_t"`
}

var (
	patterns = []string{"/a", "/b/{id}", "/c", "/a/b"}
	witness  = map[string]string{"/a": "/a", "/b/{id}": "/b/7", "/c": "/c", "/a/b": "/a/b"}
	msets    = [][]string{{"GET"}, {"TRACE"}, {"GET", "TRACE"}, {"POST", "TRACE", "PUT"}, {"POST"}, nil, {"DELETE"}}
	bodies   = []string{"", "plain", `<script>alert("x")</script>`, "a&b'c", "\x00\xff<>", strings.Repeat("<", 300), "100% %s %d %v %!", "a%20b",
		// dumps of a length beyond the usual, metacharacters at every offset modulo any buffer size
		strings.Repeat("ab<\"&'>", 1500), strings.Repeat("x", 4090) + "\"&<>'" + strings.Repeat("y&", 5000), strings.Repeat("plain-", 20000)}
)

func gen(t *rapid.T) Case {
	c := Case{Trace: rapid.Bool().Draw(t, "trace"), TraceBody: rapid.Bool().Draw(t, "traceBody")}
	c.ZeroT = rapid.SampledFrom([]int{0, 0, 9}).Draw(t, "zeroT")
	for i, n := 0, rapid.IntRange(0, 8).Draw(t, "nregs"); i < n; i++ {
		c.Uses = append(c.Uses, rapid.SliceOfN(rapid.IntRange(0, 4), 0, 2).Draw(t, "use"))
		c.Regs = append(c.Regs, Reg{Pattern: rapid.SampledFrom(patterns).Draw(t, "p"), Methods: rapid.SampledFrom(msets).Draw(t, "ms"),
			Remove: rapid.IntRange(0, 5).Draw(t, "rm") == 0, Clean: rapid.IntRange(0, 11).Draw(t, "clean") == 0})
	}
	for i, n := 0, rapid.IntRange(1, 6).Draw(t, "nreqs"); i < n; i++ {
		var q TReq
		switch rapid.IntRange(0, 6).Draw(t, "pmode") {
		case 0:
			q.Path = rapid.SampledFrom([]string{"*", "", "/", "/nope", "/b/", "/a%20b", "/%s/%d", "/b/50%"}).Draw(t, "special")
		case 1:
			q.Path = "/" + rapid.StringMatching(`[a-z<>&/]{0,8}`).Draw(t, "rand")
		default:
			q.Path = witness[rapid.SampledFrom(patterns).Draw(t, "wp")]
		}
		q.Header = map[string][]string{}
		for j, m := 0, rapid.IntRange(0, 3).Draw(t, "nh"); j < m; j++ {
			k := rapid.SampledFrom([]string{"X-A", "Accept", "Cookie", "X-<b>", "Content-Type"}).Draw(t, "hk")
			q.Header[k] = append(q.Header[k], rapid.SampledFrom([]string{"1", "<i>&\"'", "a=b; c=d", "text/html", "", "q=100%", "%v%s", strings.Repeat("k=<v>&", 1400)}).Draw(t, "hv"))
		}
		q.Body = rapid.SampledFrom(bodies).Draw(t, "body")
		q.Host = rapid.SampledFrom([]string{"", "example.com", "<host>"}).Draw(t, "host")
		q.Unknown = rapid.IntRange(0, 3).Draw(t, "unknownLen") == 0
		q.Chunked = rapid.IntRange(0, 3).Draw(t, "chunked") == 0
		if rapid.IntRange(0, 5).Draw(t, "failWrite") == 0 {
			q.FailAt = rapid.SampledFrom([]int{1, 7, 20, 60}).Draw(t, "failAt")
		}
		c.Reqs = append(c.Reqs, q)
	}
	return c
}

func check(c Case, st *rig.Stats) error {
	env := rig.NewEnv()
	r := env.NewRouter("r", rig.Opts{Trace: c.Trace, TraceBody: c.TraceBody})
	m := ref.NewTable(c.Trace)
	var use []string
	nontriv := false
	var classes []string
	for i, rg := range c.Regs {
		var ms []types.Middleware[*rig.H]
		for _, u := range c.Uses[i] {
			ms = append(ms, env.NewMW(fmt.Sprintf("m%d", u)))
			use = append(use, fmt.Sprintf("m%d", u))
		}
		if len(ms) > 0 {
			r.Use(ms...)
		}
		if rg.Clean {
			r.Clean()
			m.Clean()
			classes = append(classes, "Clean")
			continue
		}
		if rg.Remove {
			r.Remove(rg.Pattern, rg.Methods...)
			if len(rg.Methods) == 0 {
				m.Remove(rg.Pattern)
			} else {
				m.Remove(rg.Pattern, rg.Methods...)
			}
			continue
		}
		h := env.NewH()
		hasTrace := false
		for _, x := range rg.Methods {
			if x == "TRACE" {
				hasTrace = true
			}
		}
		v, panicked := rig.Try(func() { r.Handle(rg.Pattern, h, nil, rg.Methods...) })
		reason := m.RejectReason(rg.Pattern, rg.Methods)
		switch {
		case c.Trace && hasTrace && !panicked:
			return rig.Violf("trace-registered-by-hand", "with a TRACE handler configured Handle(%q, %v) was accepted", rg.Pattern, rg.Methods)
		case !c.Trace && hasTrace && reason == "" && panicked:
			return rig.Violf("trace-not-registrable", "without the option Handle(%q, %v) was rejected: %v", rg.Pattern, rg.Methods, v)
		}
		if !panicked {
			m.Handle(rg.Pattern, h.ID, rg.Methods)
			if hasTrace {
				classes = append(classes, "TRACE-registered-as-ordinary-method")
			}
		}
	}
	var wantOnion []string
	for i := len(use) - 1; i >= 0; i-- {
		wantOnion = append(wantOnion, use[i])
	}
	for i, q := range c.Reqs {
		req := rig.Req{Method: "TRACE", Path: q.Path, Host: q.Host, Header: q.Header, Body: q.Body, UnknownLength: q.Unknown, Chunked: q.Chunked, FailWriteAfter: q.FailAt}
		o := rig.Serve(r, req)
		where := fmt.Sprintf("request %d TRACE %q (trace option %v, body %v); live %v", i, q.Path, c.Trace, c.TraceBody, m.Live())
		if o.Panicked {
			return rig.Violf("panic", "%s panicked: %v", where, o.PanicVal)
		}
		if c.Trace {
			if o.BaseID != r.TraceH.ID {
				return rig.Violf("trace-not-answered-by-trace-handler", "%s ran %s(%s)", where, o.BaseID, o.BaseKind)
			}
			if fmt.Sprint(o.Trace) != fmt.Sprint(wantOnion) {
				return rig.Violf("trace-middlewares", "%s ran middlewares %v, the Use list gives %v", where, o.Trace, wantOnion)
			}
			if m.R[patternOf(q.Path)] == nil || len(use) > 0 {
				nontriv = true
			}
			// the bundled helper
			ref := &http.Request{Method: "TRACE", URL: &url.URL{Path: q.Path}, Host: q.Host, Header: http.Header{},
				Proto: "HTTP/1.1", ProtoMajor: 1, ProtoMinor: 1, RequestURI: q.Path}
			for k, v := range q.Header {
				ref.Header[k] = append([]string{}, v...)
			}
			if q.Body != "" {
				ref.Body = nopCloser{strings.NewReader(q.Body)}
				ref.ContentLength = int64(len(q.Body))
				if q.Unknown {
					ref.ContentLength = -1
				}
			}
			if q.Chunked {
				ref.TransferEncoding = []string{"chunked"}
				classes = append(classes, "chunked-request")
			}
			dump, err := httputil.DumpRequest(ref, c.TraceBody)
			if err != nil {
				classes = append(classes, "dump-error(skipped)")
				continue
			}
			want := html.EscapeString(string(dump))
			if o.EffStatus() != 200 {
				return rig.Violf("trace-status", "%s answered %d", where, o.EffStatus())
			}
			if ct := o.HeaderAtWH.Get("Content-Type"); ct != "message/http" {
				return rig.Violf("trace-content-type-not-sent", "%s: Content-Type as sent with the status line is %q (final header map has %q)", where, ct, o.Header.Get("Content-Type"))
			}
			if q.FailAt > 0 && len(want) > q.FailAt {
				// the client hung up in the middle: what did get through is the beginning of the dump, nothing else is judged
				if !strings.HasPrefix(want, string(o.Body)) {
					return rig.Violf("trace-body", "%s: the client went away after %d bytes; what it got, %q, is not the beginning of the escaped dump %q", where, q.FailAt, o.Body, want)
				}
				classes = append(classes, "client-went-away-mid-reply")
				continue
			}
			if string(o.Body) != want {
				return rig.Violf("trace-body", "%s: body %q, want the escaped dump %q", where, o.Body, want)
			}
			if strings.ContainsAny(q.Body+q.Path, "<>&\"'") {
				nontriv = true
				classes = append(classes, "html-metacharacters-in-request")
			}
			classes = append(classes, "trace-helper-judged")
			continue
		}
		// without the option TRACE is an ordinary method
		switch {
		case o.NodeNil || q.Path == "" || q.Path == "*":
			if o.BaseKind != "404" && o.BaseKind != "405" {
				return rig.Violf("trace-unregistered", "%s ran %s(%s), want 404 or 405", where, o.BaseID, o.BaseKind)
			}
		case m.R[o.Pattern] == nil:
			return rig.Violf("route-not-live", "%s reports route %q", where, o.Pattern)
		case m.Serves(o.Pattern, "TRACE") != "":
			nontriv = true
			if o.BaseID != m.Serves(o.Pattern, "TRACE") {
				return rig.Violf("trace-wrong-handler", "%s on %q ran %s, registered %s", where, o.Pattern, o.BaseID, m.Serves(o.Pattern, "TRACE"))
			}
			classes = append(classes, "TRACE-served-as-ordinary-method")
		default:
			if o.BaseKind != "405" {
				return rig.Violf("trace-unregistered", "%s on %q (methods %v) ran %s(%s), want 405", where, o.Pattern, m.AllowSet(o.Pattern), o.BaseID, o.BaseKind)
			}
		}
	}
	// TRACE is in every Allow set exactly when configured
	for _, p := range m.Live() {
		o := rig.Serve(r, rig.Req{Method: "OPTIONS", Path: witness[p]})
		if o.Panicked || o.NodeNil {
			continue
		}
		if !rig.EqualSets(o.Allow(), m.AllowSet(o.Pattern)) {
			return rig.Violf("allow", "OPTIONS %q on %q: Allow=%v want %v (trace option %v)", witness[p], o.Pattern, o.Allow(), m.AllowSet(o.Pattern), c.Trace)
		}
	}
	if o := rig.Serve(r, rig.Req{Method: "OPTIONS", Path: "*"}); !o.Panicked {
		has := false
		for _, x := range o.Allow() {
			if x == "TRACE" {
				has = true
			}
		}
		if c.Trace && !has {
			return rig.Violf("allow", "a TRACE handler is configured but OPTIONS * answers Allow=%v after %+v", o.Allow(), c.Regs)
		}
	}
	if c.Trace {
		if err := valueHandlers(c); err != nil {
			return err
		}
		classes = append(classes, fmt.Sprintf("value-typed-handlers:trace={%d}", c.ZeroT))
	}
	st.Eval(c, nontriv, classes...)
	return nil
}

// hid is a handler type that is a plain value: routers are generic, and nothing says a handler is a pointer or a func.
type hid struct{ N int }

// valueHandlers: a router over hid with WithTrace(hid{c.ZeroT}). The TRACE handler must answer every path, TRACE must
// be in the Allow sets and must not be registrable by hand - also when the configured value is the type's zero value.
func valueHandlers(c Case) error {
	var ran []int
	var methods []string
	call := func(w http.ResponseWriter, r *http.Request, route types.Route, h hid) {
		ran = append(ran, h.N)
		if n := route.Node(); n != nil {
			methods = n.Methods()
		}
	}
	r := mux.NewRouter[hid]("v", call, hid{404}, func(types.Node) hid { return hid{405} }, func(types.Node) hid { return hid{204} }, mux.WithTrace(hid{c.ZeroT}))
	r.Handle("/a", hid{1}, nil, "GET")
	for _, path := range []string{"/a", "/nope"} {
		ran = nil
		rig.Serve(r, rig.Req{Method: "TRACE", Path: path})
		if len(ran) != 1 || ran[0] != c.ZeroT {
			return rig.Violf("trace-not-answered-by-trace-handler", "router over a value handler type, WithTrace(hid{%d}): TRACE %s ran %v", c.ZeroT, path, ran)
		}
	}
	methods = nil
	rig.Serve(r, rig.Req{Method: "OPTIONS", Path: "/a"})
	has := false
	for _, m := range methods {
		has = has || m == "TRACE"
	}
	if !has {
		return rig.Violf("allow", "router over a value handler type, WithTrace(hid{%d}): the methods of /a are %v, without TRACE", c.ZeroT, methods)
	}
	if _, panicked := rig.Try(func() { r.Handle("/a", hid{2}, nil, "TRACE") }); !panicked {
		return rig.Violf("trace-registered-by-hand", "router over a value handler type, WithTrace(hid{%d}): Handle(/a, TRACE) was accepted", c.ZeroT)
	}
	return nil
}

func patternOf(path string) string {
	for p, w := range witness {
		if w == path {
			return p
		}
	}
	return ""
}

type nopCloser struct{ *strings.Reader }

func (nopCloser) Close() error { return nil }

var stats = rig.NewStats("C18",
	"rapid draws a router with or without WithTrace (helper with or without body), 0-8 registrations / removals on four patterns with method sets that may contain TRACE, interleaved Use calls, and 1-6 TRACE requests (live witness, unknown, '*', '', random paths; headers and bodies with HTML metacharacters and binary bytes, a quarter of them marked Transfer-Encoding: chunked); with the option a second router over a plain value handler type whose TRACE handler is the value {0} (the type's zero value) or {9}. With the option: the trace handler answers every path wrapped in exactly the Use middlewares, hand registration of TRACE panics, the helper replies 200 with Content-Type message/http present in the header snapshot taken at WriteHeader and a body equal to html.EscapeString(httputil.DumpRequest(identical request, body)); TRACE is in every Allow set. Without: TRACE is registrable and otherwise answered 404/405 per the table model. Non-trivial: with the option a TRACE on a non-live path or after a Use, or a request with HTML metacharacters; without it a TRACE served by a registered handler; distinct by hash of the case. Later additions to the generated domain: Bodies and header values of 10-120 KB with HTML metacharacters at every offset.",
	"httputil.DumpRequest and html.EscapeString (standard library) are the trusted reference for the helper's body")

func TestProp(t *testing.T) { rig.RunProp(t, stats, gen, check) }

func FuzzProp(f *testing.F) { rig.FuzzProp(f, stats, gen, check) }
