// C10 — reverse URL building substitutes parameters exactly and inverts matching.
package c10

import (
	"fmt"
	"sort"
	"strings"
	"testing"

	"github.com/issue9/mux/v9"
	"pgregory.net/rapid"

	"verif/harness/life"
	"verif/harness/pat"
	"verif/harness/rig"
)

type Call struct {
	Entry   string            `json:"entry"` // mux router prefix resource
	Strict  bool              `json:"strict"`
	Pattern string            `json:"pattern"`
	Cut     int               `json:"cut"`
	Params  map[string]string `json:"params"`
	Label   string            `json:"label"`
	// At: the call is made after this many operations of the history (the table keeps changing afterwards);
	// Again: and once more, unchanged, after the whole history
	At    int  `json:"at,omitempty"`
	Again bool `json:"again,omitempty"`
}

type Case struct {
	Icpt string `json:"icpt"`
	// ViaGroup: the router is made by Group.New with its own WithURLDomain(Domain) while the group was given another one
	ViaGroup bool      `json:"via_group"`
	Domain   string    `json:"domain"`
	Pool     []string  `json:"pool"`
	Ops      []life.Op `json:"ops"`
	Calls    []Call    `json:"calls"`
	Paths    []string  `json:"paths"`
}

func tokenNames(p string) []string {
	var out []string
	for i := 0; i < len(p); i++ {
		if p[i] != '{' {
			continue
		}
		j := strings.IndexByte(p[i:], '}')
		if j < 0 {
			break
		}
		inner := p[i+1 : i+j]
		if k := strings.IndexByte(inner, ':'); k >= 0 {
			inner = inner[:k]
		}
		out = append(out, strings.TrimPrefix(inner, "-"))
		i += j
	}
	return out
}

func genValue(t *rapid.T, pm *pat.Param) string {
	switch rapid.IntRange(0, 9).Draw(t, "uvMode") {
	case 0, 1, 2, 3:
		if s := pm.Simple(); len(s) > 0 {
			return rapid.SampledFrom(s).Draw(t, "uvSimple")
		}
		return "7"
	case 4, 5:
		return rapid.SampledFrom([]string{"abc5", "5abc", "a5", "5/", "/5", "x y", "7x/", "12345", "x/7"}).Draw(t, "uvMixed")
	case 6:
		return ""
	case 7:
		return pat.GenValue(t, pm)
	default:
		return rapid.String().Draw(t, "uvAny")
	}
}

func gen(t *rapid.T) Case {
	cfg := pat.GenCfg(t, true)
	cfg.Alt = true // alternations and lazy quantifiers: "over its whole length" is judged by the reference's anchored match
	c := Case{Icpt: cfg.IcptName, Domain: rapid.SampledFrom([]string{"", "", "https://x.io", "https://x.io/", "//cdn/"}).Draw(t, "domain")}
	c.ViaGroup = rapid.IntRange(0, 3).Draw(t, "viaGroup") == 0
	c.Pool = pat.GenPool(t, cfg, rapid.IntRange(2, rig.Up(10)).Draw(t, "npool"))
	if rapid.IntRange(0, 3).Draw(t, "registerAll") > 0 {
		c.Ops = append(c.Ops, life.Op{Kind: "handleMany", Patterns: c.Pool, Methods: []string{"GET"}})
	}
	c.Ops = append(c.Ops, life.GenOps(t, cfg, c.Pool, rapid.IntRange(0, 6).Draw(t, "nops"), life.GenOpts{NewMethods: true})...)
	var parsed []*pat.Pattern
	for _, p := range c.Pool {
		parsed = append(parsed, pat.MustParse(p, cfg.Icpt))
	}
	for i, n := 0, rapid.IntRange(1, 6).Draw(t, "ncalls"); i < n; i++ {
		base := rapid.SampledFrom(parsed).Draw(t, "base")
		call := Call{Pattern: base.Src, Label: "pool-pattern", Strict: rapid.IntRange(0, 2).Draw(t, "strict") > 0,
			Entry: rapid.SampledFrom([]string{"router", "router", "mux", "prefix", "resource"}).Draw(t, "entry")}
		switch rapid.IntRange(0, 9).Draw(t, "patMode") {
		case 0, 1:
			call.Label = "documented-fault"
			f := rapid.SampledFrom([]string{"{}", "{:r}", "{q:[}", "{q:(}", "{q:a)|(b}", "ADJ", "DUP", "{q-1:\\d+}", "{编号:\\d+}"}).Draw(t, "fault") // the last two: a regexp parameter whose name cannot name a capture group
			switch f {
			case "ADJ":
				if i := strings.IndexByte(base.Src, '}'); i >= 0 {
					call.Pattern = base.Src[:i+1] + "{q}" + base.Src[i+1:]
				} else {
					call.Pattern = base.Src + "{q}{q2}"
				}
			case "DUP":
				if ns := tokenNames(base.Src); len(ns) > 0 {
					call.Pattern = base.Src + "/{" + ns[0] + "}"
				} else {
					call.Pattern = base.Src + "{q}/{q}"
				}
			default:
				call.Pattern = base.Src + "/" + f
			}
		case 2, 3:
			call.Label = "prefix-of-pool-pattern"
			cut := rapid.IntRange(1, len(base.Atoms)).Draw(t, "pcut")
			var sb strings.Builder
			for k := 0; k < cut || (k < len(base.Atoms) && base.Atoms[k].IsLit() && base.Atoms[k].B&0xC0 == 0x80); k++ {
				if base.Atoms[k].IsLit() {
					sb.WriteByte(base.Atoms[k].B)
				} else {
					sb.WriteString(base.Atoms[k].P.Token)
				}
			}
			call.Pattern = sb.String()
		case 4:
			call.Label = "fresh-pattern"
			call.Pattern = pat.GenPattern(t, cfg)
		}
		call.Cut = rapid.IntRange(0, len(call.Pattern)).Draw(t, "ucut")
		call.Params = map[string]string{}
		if pp, err := pat.Parse(call.Pattern, cfg.Icpt); err == nil {
			for _, a := range pp.Atoms {
				if a.P != nil && rapid.IntRange(0, 9).Draw(t, "present") < 9 {
					call.Params[a.P.Name] = genValue(t, a.P)
				}
			}
		} else {
			for _, n := range tokenNames(call.Pattern) {
				call.Params[n] = "7"
			}
		}
		switch rapid.IntRange(0, 9).Draw(t, "paramsMode") {
		case 0:
			call.Params = map[string]string{} // empty
		case 1:
			call.Params["extra"] = "zz"
		}
		call.At = rapid.IntRange(0, len(c.Ops)).Draw(t, "callAt")
		call.Again = rapid.Bool().Draw(t, "callAgain")
		c.Calls = append(c.Calls, call)
	}
	for i, n := 0, rapid.IntRange(0, 5).Draw(t, "npaths"); i < n; i++ {
		c.Paths = append(c.Paths, pat.GenPath(t, parsed))
	}
	return c
}

// laxEndpoint: the pattern ends in a regexp parameter whose rule is lazy or an alternation.
func laxEndpoint(pp *pat.Pattern) bool {
	if pp == nil || len(pp.Atoms) == 0 {
		return false
	}
	last := pp.Atoms[len(pp.Atoms)-1]
	return last.P != nil && last.P.Kind == pat.Regex && strings.ContainsAny(last.P.Rule, "|?")
}

func check(c Case, st *rig.Stats) error {
	env := rig.NewEnv()
	s := life.NewSys(env, c.Icpt, rig.Opts{Extra: []mux.Option{mux.WithURLDomain(c.Domain)}})
	if c.ViaGroup {
		g := env.NewGroup(mux.WithURLDomain("https://group.example"))
		own, _ := env.Options(rig.Opts{Icpt: s.Icpt, Extra: []mux.Option{mux.WithURLDomain(c.Domain)}})
		s.R = &rig.Router{Router: g.New("r", nil, own...), Env: env, NotFound: g.NotFound}
	}
	domain := strings.TrimSuffix(c.Domain, "/")
	if strings.HasSuffix(c.Domain, "/") {
		domain = c.Domain[:len(c.Domain)-1]
	}
	nontriv := false
	var classes []string

	judge := func(i int, call Call, when string) error {
		var got string
		var err error
		dom := domain
		v, panicked := rig.Try(func() {
			switch call.Entry {
			case "mux":
				got, err = mux.URL(call.Pattern, call.Params)
			case "prefix":
				cut := call.Cut
				if cut > len(call.Pattern) {
					cut = len(call.Pattern)
				}
				got, err = s.R.Prefix(call.Pattern[:cut]).URL(call.Strict, call.Pattern[cut:], call.Params)
			case "resource":
				got, err = s.R.Resource(call.Pattern).URL(call.Strict, call.Params)
			default:
				got, err = s.R.URL(call.Strict, call.Pattern, call.Params)
			}
		})
		strict := call.Strict && call.Entry != "mux"
		if call.Entry == "mux" {
			dom = ""
		}
		where := fmt.Sprintf("call %d (%s) %s strict=%v URL(%q, %v) [%s], live %v, domain %q", i, when, call.Entry, strict, call.Pattern, call.Params, call.Label, s.M.Live(), c.Domain)
		if panicked {
			return rig.Violf("panic", "%s panicked: %v", where, v)
		}
		// reference judgement; strict mode knows the router's interceptors, non-strict knows none
		ic := pat.Icpt{}
		if strict {
			ic = s.Icpt
		}
		pp, perr := pat.Parse(call.Pattern, ic)
		if perr == pat.ErrUnbalanced || perr == pat.ErrEmpty || strings.Contains(call.Pattern, "{-}") || strings.Contains(call.Pattern, "{-:") {
			classes = append(classes, "unclassified-pattern(no-panic-only)")
			return nil
		}
		if !strict && len(call.Params) == 0 {
			classes = append(classes, "non-strict-empty-params(no-claim)")
			return nil
		}
		wantErr := ""
		var want string
		switch {
		case perr != nil:
			wantErr = "malformed pattern: " + perr.Error()
		default:
			sub, missing, ok := pp.Subst(call.Params)
			if !ok {
				wantErr = "parameter " + missing + " is missing"
			}
			want = dom + sub
			if strict && wantErr == "" {
				if s.M.R[call.Pattern] == nil {
					wantErr = "pattern is not a live route"
				} else {
					for _, a := range pp.Atoms {
						if a.P != nil && !a.P.Accepts(call.Params[a.P.Name]) {
							wantErr = fmt.Sprintf("value %q does not satisfy %s over its whole length", call.Params[a.P.Name], a.P.Token)
							break
						}
					}
				}
			}
		}
		if strict && perr == nil && s.M.R[call.Pattern] != nil && pp.NParams() > 0 {
			for _, a := range pp.Atoms {
				if a.P != nil && a.P.Kind != pat.Named {
					nontriv = true
					classes = append(classes, "strict-live-constrained:"+a.P.Kind.String())
					break
				}
			}
		}
		if wantErr == "" && err != nil && strict && laxEndpoint(pp) {
			// a lazy quantifier or an alternation whose earlier branch is a prefix of a later one, with nothing behind the
			// parameter: the router itself can only ever capture the short reading there (leftmost-first, no literal to force
			// backtracking), and strict mode refuses to build what that route would not serve. The statement's "over its
			// whole length" does not decide between the two readings, so no claim is made.
			classes = append(classes, "endpoint-with-lazy-or-prefix-alternation(no-claim)")
			return nil
		}
		switch {
		case wantErr != "" && err == nil:
			return rig.Violf("should-fail", "%s returned %q without error although %s", where, got, wantErr)
		case wantErr == "" && err != nil:
			return rig.Violf("should-succeed", "%s failed with %v; expected %q", where, err, want)
		case wantErr == "" && got != want:
			return rig.Violf("wrong-url", "%s = %q, expected %q", where, got, want)
		case wantErr != "":
			classes = append(classes, "error-expected-and-returned")
		default:
			classes = append(classes, "url-built")
		}
		return nil
	}
	// the calls are spread over the history: URL building is asked while the table is still changing
	for k := 0; k <= len(c.Ops); k++ {
		for i, call := range c.Calls {
			if call.At == k {
				if err := judge(i, call, fmt.Sprintf("after %d of %d operations", k, len(c.Ops))); err != nil {
					return err
				}
				if k < len(c.Ops) {
					classes = append(classes, "call-before-the-history-ends")
				}
			}
		}
		if k < len(c.Ops) {
			s.Apply(c.Ops[k])
		}
	}
	for i, call := range c.Calls {
		if call.Again && call.At < len(c.Ops) {
			if err := judge(i, call, "again after the whole history"); err != nil {
				return err
			}
			classes = append(classes, "same-call-repeated-after-later-operations")
		}
	}

	// round trip: dispatch, then rebuild the path from the captured parameters
	for _, path := range c.Paths {
		if path == "" || path == "*" {
			continue
		}
		o := s.Get("GET", path)
		if o.Panicked || o.NodeNil || s.M.R[o.Pattern] == nil {
			continue
		}
		pp := s.Parsed(o.Pattern)
		if pp == nil || pp.HasIgnored() {
			classes = append(classes, "round-trip-skipped('-'-parameter)")
			continue
		}
		if pp.NParams() >= 2 {
			nontriv = true
			classes = append(classes, "round-trip>=2-params")
		}
		for _, strict := range []bool{false, true} {
			if !strict && len(o.Params) == 0 {
				continue
			}
			got, err := s.R.URL(strict, o.Pattern, o.Params)
			if err != nil || got != domain+path {
				keys := rig.SortedKeys(o.Params)
				sort.Strings(keys)
				return rig.Violf("round-trip", "GET %q was dispatched to %q with %v, but URL(strict=%v) of that route and those params gives %q, %v (want %q)", path, o.Pattern, o.Params, strict, got, err, domain+path)
			}
		}
		classes = append(classes, "round-trip")
	}
	st.Eval(c, nontriv, classes...)
	return nil
}

var stats = rig.NewStats("C10",
	"rapid draws an interceptor set (regexp rules include alternations and a lazy quantifier), a URL domain (with/without trailing '/'), a route table history, 1-6 URL calls (each made after a drawn number of the history's operations and judged against the model as it is then; half of them repeated unchanged after the whole history) through mux.URL, Router.URL, Prefix.URL and Resource.URL (strict or not) on pool patterns, proper prefixes of pool patterns (intermediate tree nodes), fresh patterns and patterns with one documented fault (empty name, adjacent parameters, duplicate name, uncompilable regexp), with params present / missing / extra / empty and values that are simple, valid, invalid-prefix+valid-suffix, empty or arbitrary; plus 0-5 dispatched paths for the round trip. Oracle: own parser and substitution; non-strict fails iff malformed or missing; strict additionally fails unless the pattern is live in the model and every value satisfies its constraint over the whole length (named / regexp / interceptor, also with empty params); round trip URL(route, captured) == domain+path for routes without '-' parameters. Non-trivial: a strict call on a live pattern with a constrained parameter, or a round trip through >=2 parameters; distinct by hash of the case. Later additions to the generated domain: Pools contain routes with 9-34 parameters (duplicate-name faults included). Literal text may hold '%' (a printf verb when misused).",
	"patterns with unbalanced braces, '{-}' tokens and the empty pattern are only required not to panic",
	"non-strict calls with empty params carry no claim in the statement")

func TestProp(t *testing.T) { rig.RunProp(t, stats, gen, check) }

func FuzzProp(f *testing.F) { rig.FuzzProp(f, stats, gen, check) }
