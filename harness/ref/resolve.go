package ref

import (
	"encoding/json"
	"regexp"
	"sort"
	"strings"
	"sync"
	"unicode/utf8"

	"verif/harness/pat"
)

// Res is one admissible outcome of a lookup.
type Res struct {
	Pattern string
	Params  map[string]string
}

func (r Res) Key() string {
	b, _ := json.Marshal(r.Params)
	return r.Pattern + "\x00" + string(b)
}

type kv struct{ k, v string }

// Resolver executes the documented procedure on a list of patterns.
type Resolver struct {
	Routes []*pat.Pattern

	shortest bool
	// facts about the last Resolve call
	Decisions int  // literal fallbacks + positions with >=2 sibling groups + kinds that failed before a lower one was tried
	Ambiguous bool // some regexp capture differs between greedy and shortest
}

var (
	reMu    sync.Mutex
	reCache = map[string]*regexp.Regexp{}
)

func captureRe(rule, suffix string) *regexp.Regexp {
	key := rule + "\x00" + suffix
	reMu.Lock()
	defer reMu.Unlock()
	if re, ok := reCache[key]; ok {
		return re
	}
	re, err := regexp.Compile("^(" + rule + ")" + regexp.QuoteMeta(suffix))
	if err != nil {
		re = nil
	}
	reCache[key] = re
	return re
}

// Admissible returns the set of admissible outcomes for path; notFoundOK says
// whether answering 404 is admissible.
func (r *Resolver) Admissible(path string) (set []Res, notFoundOK bool) {
	r.Decisions, r.Ambiguous = 0, false
	r.shortest = false
	greedy := r.resolve(r.Routes, 0, path, nil)
	set = greedy
	notFoundOK = len(greedy) == 0
	if r.Ambiguous {
		d := r.Decisions
		r.shortest = true
		short := r.resolve(r.Routes, 0, path, nil)
		r.shortest = false
		r.Decisions = d
		set = append(append([]Res{}, greedy...), short...)
		notFoundOK = len(greedy) == 0 || len(short) == 0
	}
	return dedupe(set), notFoundOK
}

func dedupe(in []Res) []Res {
	seen := map[string]bool{}
	var out []Res
	for _, x := range in {
		k := x.Key()
		if !seen[k] {
			seen[k] = true
			out = append(out, x)
		}
	}
	return out
}

func toMap(ps []kv) map[string]string {
	m := map[string]string{}
	for _, e := range ps {
		m[e.k] = e.v
	}
	return m
}

func lcp(a, b string) string {
	n := 0
	for n < len(a) && n < len(b) && a[n] == b[n] {
		n++
	}
	return a[:n]
}

func (r *Resolver) resolve(C []*pat.Pattern, i int, rest string, ps []kv) []Res {
	var end *pat.Pattern
	for _, p := range C {
		if len(p.Atoms) == i {
			end = p
		}
	}
	// 1. literal text first
	if rest != "" {
		var L []*pat.Pattern
		for _, p := range C {
			if len(p.Atoms) > i && p.Atoms[i].IsLit() && p.Atoms[i].B == rest[0] {
				L = append(L, p)
			}
		}
		if len(L) > 0 {
			if out := r.resolve(L, i+1, rest[1:], ps); len(out) > 0 {
				return out
			}
			r.Decisions++
		}
	}
	// 2. interceptor, regexp, named
	higherFailed := false
	for _, kind := range []pat.Kind{pat.Inter, pat.Regex, pat.Named} {
		groups := map[string][]*pat.Pattern{}
		var order []string
		for _, p := range C {
			if len(p.Atoms) <= i || p.Atoms[i].IsLit() || p.Atoms[i].P.Kind != kind {
				continue
			}
			key := p.Atoms[i].P.Token + "\x00END"
			if len(p.Atoms) > i+1 {
				key = p.Atoms[i].P.Token + "\x00" + string(p.Atoms[i+1].B)
				if kind == pat.Regex {
					// the literal text behind a regexp parameter is part of its expression and is only ever shared in whole
					// characters (an expression cannot end inside one): two characters with the same lead byte are two siblings
					if _, n := utf8.DecodeRuneInString(p.LitRun(i + 1)); n > 1 {
						key = p.Atoms[i].P.Token + "\x00" + p.LitRun(i + 1)[:n]
					}
				}
			}
			if groups[key] == nil {
				order = append(order, key)
			}
			groups[key] = append(groups[key], p)
		}
		if len(order) == 0 {
			continue
		}
		sort.Strings(order)
		if higherFailed {
			r.Decisions++
		}
		if len(order) >= 2 {
			r.Decisions++
		}
		var outs []Res
		for _, key := range order {
			g := groups[key]
			pm := g[0].Atoms[i].P
			isEnd := strings.HasSuffix(key, "\x00END")
			suffix := ""
			if !isEnd {
				suffix = g[0].LitRun(i + 1)
				for _, p := range g[1:] {
					suffix = lcp(suffix, p.LitRun(i+1))
				}
				if kind == pat.Regex {
					for len(suffix) > 0 && len(suffix) < len(g[0].LitRun(i+1)) && !utf8.RuneStart(g[0].LitRun(i + 1)[len(suffix)]) {
						suffix = suffix[:len(suffix)-1]
					}
				}
			}
			v, ok := r.capture(pm, suffix, isEnd, rest)
			if !ok {
				continue
			}
			ps2 := ps
			if !pm.Ignore {
				ps2 = append(append([]kv{}, ps...), kv{pm.Name, v})
			}
			outs = append(outs, r.resolve(g, i+1+len(suffix), rest[len(v)+len(suffix):], ps2)...)
		}
		if len(outs) > 0 {
			if rest == "" && end != nil {
				outs = append(outs, Res{end.Src, toMap(ps)})
			}
			return outs
		}
		higherFailed = true
	}
	// 3. the route that ends here
	if rest == "" && end != nil {
		return []Res{{end.Src, toMap(ps)}}
	}
	return nil
}

func (r *Resolver) capture(pm *pat.Param, suffix string, isEnd bool, rest string) (string, bool) {
	switch pm.Kind {
	case pat.Named:
		if isEnd {
			return rest, true
		}
		idx := strings.Index(rest, suffix)
		if idx < 0 {
			return "", false
		}
		return rest[:idx], true
	case pat.Inter:
		if isEnd {
			return rest, pm.Accepts(rest)
		}
		for idx := 0; idx+len(suffix) <= len(rest); idx++ {
			if strings.HasPrefix(rest[idx:], suffix) && pm.Accepts(rest[:idx]) {
				return rest[:idx], true
			}
		}
		return "", false
	default:
		// greedy: Go's leftmost-first match of ^(rule)suffix
		var gv string
		gok := false
		if re := captureRe(pm.Rule, suffix); re != nil {
			if m := re.FindStringSubmatchIndex(rest); m != nil {
				gv, gok = rest[:m[3]], true
			}
		}
		// shortest: the statement's wording
		var sv string
		sok := false
		if isEnd {
			if pm.Accepts(rest) {
				sv, sok = rest, true
			}
		} else {
			for l := 0; l+len(suffix) <= len(rest); l++ {
				if strings.HasPrefix(rest[l:], suffix) && pm.Accepts(rest[:l]) {
					sv, sok = rest[:l], true
					break
				}
			}
		}
		if gok != sok || gv != sv {
			r.Ambiguous = true
		}
		if r.shortest {
			return sv, sok
		}
		return gv, gok
	}
}
