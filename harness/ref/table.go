// Package ref holds the reference models: the route table model, the reference
// resolver (the documented left-to-right procedure executed directly on the list
// of patterns — no tree), and decision tables.
package ref

import (
	"sort"
	"strings"
)

var (
	Nine       = []string{"GET", "POST", "DELETE", "PUT", "PATCH", "CONNECT", "TRACE", "HEAD", "OPTIONS"}
	AnyMethods = []string{"GET", "POST", "DELETE", "PUT", "PATCH", "CONNECT"}
)

func IsKnownMethod(m string) bool {
	for _, x := range Nine {
		if x == m {
			return true
		}
	}
	return false
}

// Table is pattern -> method -> handler id, with the documented semantics.
type Table struct {
	Trace bool
	R     map[string]map[string]string
}

func NewTable(trace bool) *Table { return &Table{Trace: trace, R: map[string]map[string]string{}} }

func (t *Table) Clone() *Table {
	c := NewTable(t.Trace)
	for p, ms := range t.R {
		c.R[p] = map[string]string{}
		for m, id := range ms {
			c.R[p][m] = id
		}
	}
	return c
}

// Reserved reports whether m can never be registered by hand.
func (t *Table) Reserved(m string) bool {
	return m == "OPTIONS" || m == "HEAD" || (t.Trace && m == "TRACE")
}

// Expand turns an empty method list into the six AnyMethods.
func Expand(methods []string) []string {
	if len(methods) == 0 {
		return append([]string{}, AnyMethods...)
	}
	return methods
}

// RejectReason says why Handle(p, methods) must be rejected judging by the
// method list alone ("" when the list is acceptable).
func (t *Table) RejectReason(p string, methods []string) string {
	seen := map[string]bool{}
	for _, m := range Expand(methods) {
		switch {
		case t.Reserved(m):
			return "reserved method " + m
		case !IsKnownMethod(m):
			return "unknown method " + m
		case seen[m]:
			return "duplicate method in list " + m
		case t.R[p] != nil && t.R[p][m] != "":
			return "duplicate pattern+method " + m
		}
		seen[m] = true
	}
	return ""
}

// Handle applies an accepted registration.
func (t *Table) Handle(p, id string, methods []string) {
	if t.R[p] == nil {
		t.R[p] = map[string]string{}
	}
	for _, m := range Expand(methods) {
		t.R[p][m] = id
	}
}

// Remove with no methods removes the pattern; otherwise the listed methods,
// ignoring OPTIONS, HEAD, "" and names that are not registered.
func (t *Table) Remove(p string, methods ...string) {
	if t.R[p] == nil {
		return
	}
	if len(methods) == 0 {
		delete(t.R, p)
		return
	}
	for _, m := range methods {
		if m == "OPTIONS" || m == "HEAD" || m == "" {
			continue
		}
		delete(t.R[p], m)
	}
	if len(t.R[p]) == 0 {
		delete(t.R, p)
	}
}

func (t *Table) Clean() { t.R = map[string]map[string]string{} }

func (t *Table) CleanPrefix(s string) {
	for p := range t.R {
		if strings.HasPrefix(p, s) {
			delete(t.R, p)
		}
	}
}

// Live returns the live patterns, sorted.
func (t *Table) Live() []string {
	out := make([]string, 0, len(t.R))
	for p := range t.R {
		out = append(out, p)
	}
	sort.Strings(out)
	return out
}

func (t *Table) Has(p, m string) bool { return t.R[p] != nil && t.R[p][m] != "" }

// Serves reports the handler id that must answer method m on pattern p
// (GET's for HEAD), or "".
func (t *Table) Serves(p, m string) string {
	if t.R[p] == nil {
		return ""
	}
	if m == "HEAD" {
		return t.R[p]["GET"]
	}
	return t.R[p][m]
}

// AllowSet of a live pattern: methods, HEAD if GET, OPTIONS, TRACE if configured.
func (t *Table) AllowSet(p string) []string {
	if t.R[p] == nil {
		return nil
	}
	set := map[string]bool{"OPTIONS": true}
	for m := range t.R[p] {
		set[m] = true
		if m == "GET" {
			set["HEAD"] = true
		}
	}
	if t.Trace {
		set["TRACE"] = true
	}
	return keys(set)
}

// StarLower is the least OPTIONS * may list; StarUpper the most.
func (t *Table) StarLower() []string {
	set := map[string]bool{"OPTIONS": true}
	if t.Trace {
		set["TRACE"] = true
	}
	for _, ms := range t.R {
		for m := range ms {
			set[m] = true
		}
	}
	return keys(set)
}

func (t *Table) StarUpper() []string {
	return append(t.StarLower(), "HEAD")
}

// Render is what Routes() must return.
func (t *Table) Render() map[string][]string {
	out := map[string][]string{}
	star := []string{"OPTIONS"}
	if t.Trace {
		star = append(star, "TRACE")
	}
	out["*"] = star
	for p := range t.R {
		out[p] = t.AllowSet(p)
	}
	return out
}

func keys(set map[string]bool) []string {
	out := make([]string, 0, len(set))
	for k := range set {
		out = append(out, k)
	}
	sort.Strings(out)
	return out
}
