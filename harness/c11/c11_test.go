// C11 — CORS never grants more than was configured.
package c11

import (
	"testing"

	"verif/harness/corsref"
	"verif/harness/rig"
)

func check(c corsref.Case, st *rig.Stats) error {
	w, pv, panicked := corsref.TryBuild(c)
	if panicked {
		if c.Cfg.Refused() {
			st.Eval(c, false, "configuration-refused('*'-with-credentials)")
			return nil
		}
		return rig.Violf("construction-panicked", "building the router for %+v panicked: %v", c.Cfg, pv)
	}
	nontriv := false
	var classes []string
	for i, q := range c.Reqs {
		w.Advance(i)
		o := w.Serve(q)
		if o.Panicked {
			classes = append(classes, "panic(not-judged-here)")
			continue
		}
		f := corsref.Derive(c.Cfg, w.M, q, o)
		if q.Origin != nil && (f.Preflight || (!f.AnyOrigin && !f.Deny)) {
			nontriv = true
		}
		acao := corsref.Values(o.Header, "Access-Control-Allow-Origin")
		acac := corsref.Values(o.Header, "Access-Control-Allow-Credentials")
		where := func() string {
			return rig.Violf("", "request %d %+v origin=%v acrm=%v acrh=%v on route %q (allow %v), config %+v; response headers %v", i, q, deref(q.Origin), deref(q.ACRM), deref(q.ACRH), f.Route, f.RouteAllow, c.Cfg, o.Header).Msg
		}
		if len(acao) > 1 {
			return rig.Violf("acao-multiple", "%s", where())
		}
		if len(acao) == 1 {
			classes = append(classes, "acao-granted")
			v := acao[0]
			ok := (v == "*" && f.AnyOrigin) || (q.Origin != nil && v == *q.Origin && f.OriginListed)
			if !ok {
				return rig.Violf("acao-not-configured", "Access-Control-Allow-Origin %q is neither a configured '*' nor the request's own listed Origin: %s", v, where())
			}
			switch {
			case f.Deny:
				return rig.Violf("acao-on-deny-config", "%s", where())
			case o.BaseKind == "404" || o.BaseKind == "405" || o.EffStatus() == 404 || o.EffStatus() == 405:
				return rig.Violf("acao-on-404-405", "%s", where())
			case f.Preflight && !f.ACRMServed:
				return rig.Violf("acao-on-preflight-for-unserved-method", "%s", where())
			case f.Preflight && !f.HeadersOK:
				return rig.Violf("acao-on-preflight-for-unallowed-header", "%s", where())
			}
		} else {
			classes = append(classes, "acao-absent")
		}
		for _, v := range acac {
			if v != "true" {
				continue
			}
			if len(acao) != 1 || acao[0] == "*" || q.Origin == nil || acao[0] != *q.Origin || !f.OriginListed {
				return rig.Violf("credentials-without-echoed-listed-origin", "%s", where())
			}
			classes = append(classes, "credentials-granted")
		}
		if f.Preflight {
			classes = append(classes, "preflight")
		}
	}
	if c.Sibling != nil {
		classes = append(classes, "sibling-router-cut-from-the-same-option-arrays")
	}
	for _, rt := range c.Routes {
		if len(rt.Remove) > 0 && rt.RemoveAt > 0 && rt.RemoveAt < len(c.Reqs) {
			classes = append(classes, "methods-removed-between-two-requests")
		}
	}
	st.Eval(c, nontriv, classes...)
	return nil
}

func deref(s *string) string {
	if s == nil {
		return "<absent>"
	}
	return *s
}

var stats = rig.NewStats("C11",
	"rapid draws a CORS configuration (no origins / '*' / list / list+'*'; allowed headers none / '*' / list; exposed headers; max-age; credentials; '*' together with credentials is kept in a quarter of the cases where it is drawn: construction must then refuse it, and if it does not the requests are judged as usual), 1-3 routes with method sets of which some methods are removed again - before the first request or between two requests -, in a quarter of the cases a sibling stand-alone router whose option lists are longer slices of the arrays the subject's lists were cut from (created before or after the subject, sent every request first), and 1-8 requests, some repeated verbatim (one in ten with a second Origin header line; method from the nine + unknown + the empty method; path = live witness / unknown / '*' / the empty path; Origin absent / listed / listed in other case / unlisted / 'null' / ''; Access-Control-Request-Method absent / served / unserved / junk; Access-Control-Request-Headers drawn from allowed and other names with random letter case and spacing). Every response is judged against the reference decision table as an upper bound: ACAO only '*' (if configured) or the request's own exactly-listed Origin; never on a deny config, a 404/405, a preflight for an unserved method or for a header outside the list (case-insensitive); ACAC:true only with an echoed listed origin. Non-trivial: the request carries an Origin and is a preflight or the config is a list; distinct by hash of the case. Later additions to the generated domain: One origin list in eight is a subset of 8-40 of a pool of sixty origins (some 64 bytes and longer) with foreign origins drawn from the unlisted rest; the configuration WithAllowedCORS stands for is built with it; routes gain methods between two requests; panicking routes run under any of the five recovery options. Allowed header names include two with non-token bytes; near misses also replace an i by U+0130 / U+0131.")

func TestProp(t *testing.T) { rig.RunProp(t, stats, corsref.Gen, check) }

func FuzzProp(f *testing.F) { rig.FuzzProp(f, stats, corsref.Gen, check) }
