// C14 — Hosts matcher: normalised host resolves against the registered domains.
package c14

import (
	"fmt"
	"net/http"
	"net/url"
	"strings"
	"testing"
	"unicode"

	"github.com/issue9/mux/v9"
	"github.com/issue9/mux/v9/types"
	"pgregory.net/rapid"

	"verif/harness/pat"
	"verif/harness/ref"
	"verif/harness/rig"
)

type Step struct {
	Del    bool   `json:"del"`
	Domain string `json:"domain"` // as passed to Add / Delete (any letter case in the literal parts and in parameter names)
	// Reg: instead of an Add / Delete, RegisterInterceptor(digits-only, "num") - from here on "num" is an interceptor
	Reg bool `json:"reg,omitempty"`
}

type Case struct {
	Icpt  bool     `json:"icpt"` // register the word / digit interceptors before any Add
	Steps []Step   `json:"steps"`
	Hosts []string `json:"hosts"`
	// Init: that many leading Add steps are given to NewHosts as its initial domains instead (when no interceptor has
	// to be registered first); if the constructor refuses the list, the steps are replayed as plain Adds
	Init int `json:"init,omitempty"`
}

var (
	labels   = []string{"a", "b", "c", "d", "e", "f", "g", "api", "ww", "a1", "münchen", "пример"} // raw-UTF-8 names too: their capitals are not ASCII
	suffixes = []string{"b.com", "c.io", "d.net", "a.b.com", "b.com.", "com"}
	ipv6     = []string{"::1", "fe80::ab", "2001:db8::a:1"} // IPv6 literals are domains too; they arrive in brackets
	tokens   = []string{"{sub}", "{s2}", `{n:\d+}`, "{w:word}", "{-sub}", `{any:[^.]+}`, "{d:digit}", "{sub2}"}
	icpt     = pat.Icpt{"word": "word", "digit": "digit"}
)

func randCase(t *rapid.T, s string) string {
	// letters outside ASCII first, rune by rune (their upper-case forms have the same encoded length here)
	if !isASCII(s) {
		rs := []rune(s)
		depth := 0
		for i, r := range rs {
			switch {
			case r == '{':
				depth++
			case r == '}':
				depth--
			case depth == 0 && r > 127 && unicode.IsLower(r) && rapid.IntRange(0, 2).Draw(t, "ucRune") == 0:
				rs[i] = unicode.ToUpper(r)
			}
		}
		s = string(rs)
	}
	b := []byte(s)
	depth, inRule := 0, false
	for i, c := range b {
		if c == '{' {
			depth++
			inRule = false
		}
		if c == '}' {
			depth--
			continue
		}
		if depth > 0 && c == ':' {
			inRule = true
		}
		// literal text and parameter names; a rule is left alone (\D is not \d)
		if !inRule && c >= 'a' && c <= 'z' && rapid.IntRange(0, 2).Draw(t, "uc") == 0 {
			b[i] = c - 32
		}
	}
	return string(b)
}

func isASCII(s string) bool {
	for i := 0; i < len(s); i++ {
		if s[i] > 127 {
			return false
		}
	}
	return true
}

func genDomain(t *rapid.T, ic bool) string {
	toks := tokens
	first := ""
	if rapid.IntRange(0, 2).Draw(t, "firstTok") == 0 {
		first = rapid.SampledFrom(toks).Draw(t, "tok")
	} else {
		first = rapid.SampledFrom(labels).Draw(t, "label")
	}
	d := first + "." + rapid.SampledFrom(suffixes).Draw(t, "suffix")
	if rapid.IntRange(0, 5).Draw(t, "deep") == 0 {
		second := rapid.SampledFrom(append(append([]string{}, labels...), "{t2}", `{m:\d+}`)).Draw(t, "second")
		d = first + "." + second + "." + rapid.SampledFrom(suffixes).Draw(t, "suffix2")
	}
	_ = ic
	return d
}

func gen(t *rapid.T) Case {
	c := Case{Icpt: rapid.Bool().Draw(t, "icpt")}
	var pool []string
	n := rapid.IntRange(2, rig.Up(12)).Draw(t, "npool")
	if rapid.IntRange(0, 7).Draw(t, "wildOnly") == 0 {
		// wildcard domains only: five or more children at the root of the matcher's tree and not one literal among them
		sufs := rapid.Permutation(append(append([]string{}, suffixes...), "b.com.cn", "e.org")).Draw(t, "wsuffixes")
		for i, tok := range rapid.Permutation(tokens).Draw(t, "wtokens")[:rapid.IntRange(5, len(tokens)).Draw(t, "wn")] {
			pool = append(pool, tok+"."+sufs[i%len(sufs)])
		}
		n = len(pool)
	}
	for len(pool) < n {
		if rapid.IntRange(0, 3).Draw(t, "burst") == 0 {
			suf := rapid.SampledFrom(suffixes).Draw(t, "bsuffix")
			off := rapid.IntRange(0, len(labels)-1).Draw(t, "boff")
			for j, k := 0, rapid.IntRange(5, 7).Draw(t, "bk"); j < k; j++ {
				pool = append(pool, labels[(off+j)%len(labels)]+"."+suf)
			}
			pool = append(pool, rapid.SampledFrom(tokens).Draw(t, "btok")+"."+suf)
		} else if rapid.IntRange(0, 5).Draw(t, "lateRule") == 0 {
			// a wildcard whose rule name is registered as an interceptor somewhere in the history; it sits behind a
			// literal label of its own, so that no two such domains share the parameter's tree node
			pool = append(pool, rapid.SampledFrom(labels).Draw(t, "lateLabel")+"."+rapid.SampledFrom([]string{"{n:num}", "{k:num}"}).Draw(t, "lateTok"))
		} else if rapid.IntRange(0, 7).Draw(t, "v6") == 0 {
			pool = append(pool, rapid.SampledFrom(ipv6).Draw(t, "ipv6"))
		} else {
			pool = append(pool, genDomain(t, c.Icpt))
		}
	}
	live := map[string]bool{}
	regDone := false
	for i, m := 0, rapid.IntRange(1, rig.Up(20)).Draw(t, "nsteps"); i < m; i++ {
		var s Step
		var liveList []string
		for _, d := range pool {
			if live[d] {
				liveList = append(liveList, d)
			}
		}
		if !regDone && rapid.IntRange(0, 7).Draw(t, "isReg") == 0 {
			regDone = true
			c.Steps = append(c.Steps, Step{Reg: true})
			continue
		}
		if len(liveList) > 0 && rapid.IntRange(0, 9).Draw(t, "isDel") < 3 {
			d := rapid.SampledFrom(liveList).Draw(t, "delLive")
			s = Step{Del: true, Domain: randCase(t, d)}
			delete(live, d)
		} else if rapid.IntRange(0, 19).Draw(t, "delAny") == 0 {
			s = Step{Del: true, Domain: randCase(t, rapid.SampledFrom(pool).Draw(t, "delPool"))}
			delete(live, strings.ToLower(s.Domain))
		} else {
			d := rapid.SampledFrom(pool).Draw(t, "add")
			s = Step{Domain: randCase(t, d)}
			live[d] = true
		}
		c.Steps = append(c.Steps, s)
	}
	var parsed []*pat.Pattern
	for _, d := range pool {
		hic := pat.Icpt{"num": "digit"}
		for k, v := range icptOf(c.Icpt) {
			hic[k] = v
		}
		if p, err := pat.Parse(d, hic); err == nil {
			parsed = append(parsed, p)
		}
	}
	for i, m := 0, rapid.IntRange(1, 6).Draw(t, "nhosts"); i < m; i++ {
		var h string
		switch rapid.IntRange(0, 9).Draw(t, "hmode") {
		case 0:
			h = rapid.SampledFrom([]string{"", "*", "[::1]", "[::1]:80", "::1", "a:b:c", "[", "]", ":", "b.com", "B.COM:443", "b.com:", "b.com:x", "[a.b.com]:1",
				"[::1]:8080", "[FE80::AB]", "[fe80::ab]:443", "[2001:db8::a:1]", "[2001:DB8::A:1]:80", "[::1", "::1]:80"}).Draw(t, "hspecial")
		case 1:
			h = rapid.String().Draw(t, "hany")
		default:
			p := rapid.SampledFrom(parsed).Draw(t, "hbase")
			var sb strings.Builder
			for _, a := range p.Atoms {
				if a.IsLit() {
					sb.WriteByte(a.B)
				} else {
					sb.WriteString(rapid.SampledFrom([]string{"x", "7", "xy", "78", "a", "a.b", "api", "1", "", "x-y", "Z9", "num"}).Draw(t, "hval"))
				}
			}
			h = randCase(t, sb.String())
			if dots := strings.Count(h, "."); dots > 0 && rapid.IntRange(0, 5).Draw(t, "dotMiss") == 0 {
				k := rapid.IntRange(1, dots).Draw(t, "dotIdx")
				repl := rapid.SampledFrom([]string{"-", "x", "..", ""}).Draw(t, "dotRepl")
				idx := -1
				for j := 0; j < k; j++ {
					idx += 1 + strings.Index(h[idx+1:], ".")
				}
				h = h[:idx] + repl + h[idx+1:]
			}
			switch rapid.IntRange(0, 7).Draw(t, "hport") {
			case 0:
				h += rapid.SampledFrom([]string{":80", ":80", ":9", ":0", ":65535", ":09", ":1234567890"}).Draw(t, "validPort") // every digit occurs
			case 1:
				h += ":"
			case 2:
				h += rapid.SampledFrom([]string{":8x", ":8x", ":/", "::", ":8:", ":\uff18", ":+8", ":8 "}).Draw(t, "badPort") // incl. the bytes just outside 0-9
			case 3:
				h = "[" + h + "]"
			case 4:
				h = "[" + h + "]:8080"
			}
		}
		c.Hosts = append(c.Hosts, h)
	}
	if rapid.IntRange(0, 3).Draw(t, "init") == 0 {
		c.Init = rapid.IntRange(1, 6).Draw(t, "initN")
	}
	return c
}

func icptOf(on bool) pat.Icpt {
	if on {
		return icpt
	}
	return pat.Icpt{}
}

// normalise is the harness' own reading of the statement: lower-case, strip a
// valid ':port' (colon followed by digits only, possibly none), strip one pair
// of IPv6 brackets.
func normalise(h string) string {
	if i := strings.LastIndexByte(h, ':'); i >= 0 {
		ok := true
		for _, c := range []byte(h[i+1:]) {
			if c < '0' || c > '9' {
				ok = false
			}
		}
		if ok {
			h = h[:i]
		}
	}
	if len(h) >= 2 && h[0] == '[' && h[len(h)-1] == ']' {
		h = h[1 : len(h)-1]
	}
	return strings.ToLower(h)
}

type result struct {
	ok     bool
	params map[string]string
}

// asHost renders a (normalised) domain instance the way a client sends it: IPv6 literals in brackets.
func asHost(w string) string {
	if strings.Contains(w, ":") {
		return "[" + w + "]"
	}
	return w
}

func match(hs *mux.Hosts, host string) (result, any, bool) {
	r := &http.Request{Method: "GET", URL: &url.URL{Path: "/p"}, Host: host, Header: http.Header{}}
	ctx := types.NewContext()
	var res result
	v, p := rig.Try(func() { res.ok = hs.Match(r, ctx) })
	res.params = map[string]string{}
	ctx.Range(func(k, v string) { res.params[strings.ToLower(k)] = v }) // names compared case-insensitively, like the domains
	ctx.Destroy()
	return res, v, p
}

func check(c Case, st *rig.Stats) error {
	ic := pat.Icpt{}
	for k, v := range icptOf(c.Icpt) {
		ic[k] = v
	}
	hs := mux.NewHosts(false)
	initDone := 0
	if !c.Icpt && c.Init > 0 {
		var doms []string
		for _, s := range c.Steps {
			if s.Reg || s.Del || len(doms) == c.Init {
				break
			}
			doms = append(doms, s.Domain)
		}
		var h2 *mux.Hosts
		if _, panicked := rig.Try(func() { h2 = mux.NewHosts(false, doms...) }); !panicked && len(doms) > 0 {
			hs, initDone = h2, len(doms)
		}
	}
	if c.Icpt {
		hs.RegisterInterceptor(pat.Funcs["word"], "word")
		hs.RegisterInterceptor(pat.Funcs["digit"], "digit")
	}
	live := map[string]*pat.Pattern{}
	order := []string{}
	deleted := false
	nontriv := false
	var classes []string
	liveList := func() []*pat.Pattern {
		var out []*pat.Pattern
		for _, d := range order {
			if p := live[d]; p != nil {
				out = append(out, p)
			}
		}
		return out
	}
	names := func() []string {
		var out []string
		for _, p := range liveList() {
			out = append(out, p.Src)
		}
		return out
	}
	type wobs struct {
		host string
		res  result
	}
	var prev []wobs
	for i, s := range c.Steps {
		when := fmt.Sprintf("after step %d %+v (history %+v)", i, s, c.Steps[:i+1])
		lower := strings.ToLower(s.Domain)
		var delPat *pat.Pattern
		if s.Reg {
			// domains added so far keep reading "num" as a regexp, those added from now on as an interceptor
			hs.RegisterInterceptor(pat.Funcs["digit"], "num")
			ic["num"] = "digit"
			classes = append(classes, "interceptor-registered-mid-history")
		} else if s.Del {
			delPat = live[lower]
			if v, p := rig.Try(func() { hs.Delete(s.Domain) }); p {
				return rig.Violf("panic", "%s: Delete panicked: %v", when, v)
			}
			if delPat != nil {
				deleted = true
				delete(live, lower)
				if len(live) > 0 {
					nontriv = true
				}
				classes = append(classes, "delete-live")
				if lower != s.Domain {
					classes = append(classes, "delete-in-other-case")
				}
			}
		} else {
			p, perr := pat.Parse(lower, ic)
			panicked := false
			if i < initDone {
				classes = append(classes, "initial-domain-of-NewHosts")
			} else {
				_, panicked = rig.Try(func() { hs.Add(s.Domain) })
			}
			if !panicked && perr == nil {
				if live[lower] == nil {
					order = append(order, lower)
				}
				live[lower] = p
			}
			if panicked && live[lower] != nil {
				classes = append(classes, "add-duplicate-rejected")
			}
		}
		if i < initDone-1 {
			continue // the Hosts already holds all its initial domains: judged once the model holds them too
		}
		ll := liveList()
		// witness checks (always)
		var cur []wobs
		for _, p := range ll {
			w, wparams, ok := p.Witness(i)
			if !ok {
				continue
			}
			res, v, panicked := match(hs, asHost(w))
			if panicked {
				return rig.Violf("panic", "%s: Match(%q) panicked: %v", when, w, v)
			}
			cur = append(cur, wobs{w, res})
			if !res.ok {
				return rig.Violf("live-domain-rejected", "%s: host %q is the witness of live domain %q but was rejected; live %v", when, w, p.Src, names())
			}
			if !rig.EqualParams(res.params, wparams) {
				// some other live domain of the same or a higher kind may have won
				okAlt := false
				for _, q := range ll {
					if q != p && q.Conforms(w, res.params) {
						d := pat.FirstDiff(p, q)
						if d < len(q.Atoms) && (d >= len(p.Atoms) || q.Atoms[d].Rank() <= p.Atoms[d].Rank()) {
							okAlt = true
						}
					}
				}
				if !okAlt {
					return rig.Violf("witness-params", "%s: host %q (witness of %q) accepted with params %v, want %v; live %v", when, w, p.Src, res.params, wparams, names())
				}
			}
		}
		if s.Del && delPat != nil {
			// the deleted domain is gone
			if w, _, ok := delPat.Witness(i); ok {
				res, v, panicked := match(hs, asHost(w))
				if panicked {
					return rig.Violf("panic", "%s: Match(%q) panicked: %v", when, w, v)
				}
				other := false
				for _, q := range ll {
					if q.Matches(w) {
						other = true
					}
				}
				if res.ok && !other {
					return rig.Violf("deleted-domain-still-matches", "%s: Delete(%q) but host %q still matches (params %v); live %v", when, s.Domain, w, res.params, names())
				}
			}
			// frame condition
			for _, b := range prev {
				if delPat.Matches(b.host) {
					continue
				}
				res, _, _ := match(hs, asHost(b.host))
				if res.ok != b.res.ok || !rig.EqualParams(res.params, b.res.params) {
					return rig.Violf("delete-changed-other-domain", "%s: host %q resolved to %v %v before Delete(%q) and to %v %v after, although the deleted domain does not match it; live %v", when, b.host, b.res.ok, b.res.params, s.Domain, res.ok, res.params, names())
				}
			}
		}
		prev = cur
		// generated hosts
		rs := &ref.Resolver{Routes: ll}
		for _, h := range c.Hosts {
			res, v, panicked := match(hs, h)
			if panicked {
				return rig.Violf("panic", "%s: Match(%q) panicked: %v", when, h, v)
			}
			n := normalise(h)
			if n != strings.ToLower(h) {
				classes = append(classes, "host-with-port-or-brackets")
			}
			if !res.ok && len(res.params) != 0 {
				return rig.Violf("rejected-with-params", "%s: host %q rejected but params %v left behind", when, h, res.params)
			}
			if n == "" || n == "*" {
				classes = append(classes, "special-host-skipped")
				continue
			}
			if deleted {
				// the tree is no longer canonical: only the sound half is judged
				if res.ok {
					conf := false
					for _, q := range ll {
						if q.Conforms(n, res.params) {
							conf = true
						}
					}
					if !conf {
						return rig.Violf("accepted-without-conforming-domain", "%s: host %q (normalised %q) accepted with params %v but no live domain equals it under these values; live %v", when, h, n, res.params, names())
					}
				} else {
					classes = append(classes, "rejected-after-delete(not-judged)")
				}
				continue
			}
			adm, nfOK := rs.Admissible(n)
			if res.ok {
				classes = append(classes, "host-accepted")
				found := false
				for _, a := range adm {
					if rig.EqualParams(a.Params, res.params) {
						found = true
					}
				}
				if !found {
					return rig.Violf("not-admissible", "%s: host %q (normalised %q) accepted with params %v; the resolution rules admit %v; live %v", when, h, n, res.params, adm, names())
				}
			} else {
				classes = append(classes, "host-rejected")
				if !nfOK {
					return rig.Violf("rejected-but-resolves", "%s: host %q (normalised %q) rejected; the resolution rules find %v; live %v", when, h, n, adm, names())
				}
			}
		}
	}
	st.Eval(c, nontriv, classes...)
	return nil
}

var stats = rig.NewStats("C14",
	"rapid draws a pool of 2-12 domain patterns (literal labels, named / regexp / interceptor / ignored wildcard labels, bursts of 5-7 literal first labels plus a wildcard under one suffix; one case in eight has five to eight wildcard domains and no literal one), a history of 1-20 Add / Delete steps with the literal parts in random letter case, and 1-6 Host strings (a pool domain instantiated with simple or literal-alphabet values in random case, with ':80', ':', ':8x', brackets, brackets+port; special forms; arbitrary strings). After every step each live domain's witness must be accepted with its own (or an equal-or-higher-kind sibling's conforming) parameters, a deleted domain's witness must be rejected unless another live domain matches it, hosts the deleted domain does not match must resolve as before; generated hosts are normalised by the harness (lower-case, valid ':digits*' port stripped, one pair of brackets stripped) and, while the history is add-only, must be accepted iff the C02 reference resolver finds a domain, with parameters in its admissible set; after a delete only 'accepted implies some live domain conforms' is judged. Non-trivial: a live domain was deleted while others stayed; distinct by hash of the case. Later additions to the generated domain: The leading Add steps of a quarter of the histories are given to NewHosts as initial domains.",
	"the word / digit interceptors are registered before any domain is added; the rule name 'num' is registered at a drawn point of the history and only used by wildcards that sit behind a literal label of their own (the statement does not say what a token shared by a domain added before and one added after the registration means)",
	"letter case is varied in literal text and in parameter names, not inside rules; parameter names are compared case-insensitively")

func TestProp(t *testing.T) { rig.RunProp(t, stats, gen, check) }

func FuzzProp(f *testing.F) { rig.FuzzProp(f, stats, gen, check) }
