// C06 — WithLock(true) makes concurrent registration, removal and serving safe.
package c06

import (
	"fmt"
	"net/http"
	"os"
	"runtime"
	"sort"
	"strconv"
	"strings"
	"sync"
	"sync/atomic"
	"testing"
	"time"

	"github.com/issue9/mux/v9"
	"github.com/issue9/mux/v9/types"
	"pgregory.net/rapid"

	"verif/harness/pat"
	"verif/harness/ref"
	"verif/harness/rig"
)

type WOp struct {
	Kind    string   `json:"k"` // handle remove removeM cleanPrefix
	P       int      `json:"p"`
	Methods []string `json:"ms,omitempty"`
	Yield   bool     `json:"y,omitempty"`
}

type ROp struct {
	Kind  string `json:"k"` // untouched toggled options routes url
	P     int    `json:"p"`
	M     string `json:"m,omitempty"`
	Yield bool   `json:"y,omitempty"`
}

type Program struct {
	Writers [][]WOp `json:"writers"`
	Readers [][]ROp `json:"readers"`
	Procs   int     `json:"procs"`
	Pre     []int   `json:"pre"`   // toggled patterns registered before the goroutines start
	Trace   bool    `json:"trace"` // router created with a TRACE handler as well
	// Rounds > 1: a tiny program that is run this many times, each time on a fresh router, inside one
	// child process - narrow windows need many schedule samples of a short program rather than one long one
	Rounds int `json:"rounds,omitempty"`
	// Recovery: the router has a recovery function and the never-touched route /boom/{id} panics
	Recovery bool `json:"recovery,omitempty"`
	// ViaGroup: the router is made by Group.New (matcher nil) and every request enters through Group.ServeHTTP
	ViaGroup bool `json:"via_group,omitempty"`
	// Mass > 0: that many further never-touched literal routes (/mass/<i>) are registered before the goroutines start:
	// listings, indexes and counters of a size beyond the usual
	Mass int `json:"mass,omitempty"`
}

type upat struct {
	pattern string
	methods []string
	path    func(v string) (string, map[string]string)
}

var untouched = []upat{
	{"/keep/{id}", []string{"GET", "POST"}, func(v string) (string, map[string]string) { return "/keep/v" + v, map[string]string{"id": "v" + v} }},
	{"/keep2", []string{"GET"}, func(v string) (string, map[string]string) { return "/keep2", map[string]string{} }},
	{`/k/{a}/{b:\d+}`, []string{"GET", "DELETE"}, func(v string) (string, map[string]string) {
		return "/k/w" + v + "/" + v, map[string]string{"a": "w" + v, "b": v}
	}},
}

// boom is a never-touched route whose handler panics; only requested when the router has a recovery function
var boom = upat{"/boom/{id}", []string{"GET"}, func(v string) (string, map[string]string) { return "/boom/v" + v, map[string]string{"id": "v" + v} }}

var toggled = []struct{ pattern, path string }{
	{"/keep/x", "/keep/x"}, {"/ke", "/ke"}, {"/keep/{id}/y", "/keep/v1/y"}, {"/keep2/z", "/keep2/z"},
	{"/k/{a}/z", "/k/a/z"}, {"/kee", "/kee"}, {"/{any}", "/zzz"}, {"/keep/{id}/{z}", "/keep/v1/q"},
	{"/keep/{id}/y/{w}", "/keep/v1/y/w"}, {"/keep22", "/keep22"},
	// literal siblings of the never-touched /keep/{id}: with them its parent has >= 5 children (first-byte index)
	{"/keep/a", "/keep/a"}, {"/keep/b", "/keep/b"}, {"/keep/c/one", "/keep/c/one"}, {"/keep/c/two", "/keep/c/two"},
	{"/keep/d", "/keep/d"}, {"/keep/e", "/keep/e"},
	// extensions hanging below other toggled routes
	{"/keep/dd", "/keep/dd"}, {"/keep/a/deep", "/keep/a/deep"},
	// rivals: the same routes under other parameter names - a router never holds both of a pair
	{"/keep/{uid}/y", "/keep/v1/y"}, {"/k/{a2}/z", "/k/a/z"}, {`/r/{n:\d+}/a`, "/r/5/a"}, {`/r/{m:\d+}/a`, "/r/5/a"},
	// the other spelling of a parameter without a rule
	{"/e/{id:}", "/e/v1"}, {"/e2/{-z:}/q", "/e2/q/q"},
}

// rivalPairs: two toggled patterns that are identical up to parameter names.
var rivalPairs = [][2]int{{2, 18}, {4, 19}, {20, 21}}

// duelPairs: a toggled route and another one whose node hangs below it. In a duel the first is
// registered and removed by several writers while the second is only ever registered.
var duelPairs = [][2]int{{2, 8}, {14, 16}, {10, 17}, {0, 0}}

var cleanPrefixes = []string{"/keep/{id}/", "/keep2/", "/keep/{id}/y/", "/k/{a}/z", "/keep/c/"}

var methodSets = [][]string{{"GET"}, {"POST"}, {"GET", "POST"}, nil, {"DELETE"}}

// noops are writer calls that by contract change nothing, aimed at the never-touched routes: removals naming only
// methods that are ignored, unknown or not registered there, removals of patterns that do not exist, and registrations
// that must be refused. "Routes that are never touched keep being served with their own handler" covers them.
var noops = []struct {
	name    string
	refused bool // the call must panic with an error value
	call    func(r *mux.Router[*rig.H], h *rig.H)
}{
	{"Remove(/keep/{id}, get)", false, func(r *mux.Router[*rig.H], h *rig.H) { r.Remove("/keep/{id}", "get") }},
	{"Remove(/keep/{id}, BOGUS, \"\")", false, func(r *mux.Router[*rig.H], h *rig.H) { r.Remove("/keep/{id}", "BOGUS", "") }},
	{"Remove(/keep2, OPTIONS, HEAD)", false, func(r *mux.Router[*rig.H], h *rig.H) { r.Remove("/keep2", "OPTIONS", "HEAD") }},
	{"Remove(/k/{a}/{b:\\d+}, PATCH)", false, func(r *mux.Router[*rig.H], h *rig.H) { r.Remove(`/k/{a}/{b:\d+}`, "PATCH") }},
	{"Remove(/keep/{id}, PUT, PATCH)", false, func(r *mux.Router[*rig.H], h *rig.H) { r.Remove("/keep/{id}", "PUT", "PATCH") }},
	{"Remove(/nowhere/{id})", false, func(r *mux.Router[*rig.H], h *rig.H) { r.Remove("/nowhere/{id}") }},
	{"Remove(/keep)", false, func(r *mux.Router[*rig.H], h *rig.H) { r.Remove("/keep") }},
	{"Remove(/keep/)", false, func(r *mux.Router[*rig.H], h *rig.H) { r.Remove("/keep/") }},
	{"Prefix(/nowhere).Clean()", false, func(r *mux.Router[*rig.H], h *rig.H) { r.Prefix("/nowhere").Clean() }},
	{"Prefix(/keep/{id}).Remove(\"\", BOGUS)", false, func(r *mux.Router[*rig.H], h *rig.H) { r.Prefix("/keep/{id}").Remove("", "BOGUS") }},
	{"Resource(/keep2).Remove(PATCH)", false, func(r *mux.Router[*rig.H], h *rig.H) { r.Resource("/keep2").Remove("PATCH") }},
	{"Handle(/keep/{id}, GET) again", true, func(r *mux.Router[*rig.H], h *rig.H) { r.Handle("/keep/{id}", h, nil, "GET") }},
	{"Handle(/keep2, PUT, HEAD)", true, func(r *mux.Router[*rig.H], h *rig.H) { r.Handle("/keep2", h, nil, "PUT", "HEAD") }},
	{"Handle(/keep/{other}, PUT)", true, func(r *mux.Router[*rig.H], h *rig.H) { r.Handle("/keep/{other}", h, nil, "PUT") }},
	{"Handle(/k/{a}/{b:\\d+}, PUT, PUT)", true, func(r *mux.Router[*rig.H], h *rig.H) { r.Handle(`/k/{a}/{b:\d+}`, h, nil, "PUT", "PUT") }},
}

func gen(t *rapid.T) Program {
	var p Program
	p.Procs = rapid.SampledFrom([]int{2, 4, 16}).Draw(t, "procs")
	p.Trace = rapid.Bool().Draw(t, "trace")
	p.Recovery = rapid.IntRange(0, 2).Draw(t, "recovery") == 0
	p.ViaGroup = rapid.IntRange(0, 3).Draw(t, "viaGroup") == 0
	if rapid.IntRange(0, 5).Draw(t, "mass") == 0 {
		p.Mass = rapid.SampledFrom([]int{101, 130, 260, 520}).Draw(t, "massN")
	}
	p.Pre = rapid.SliceOfNDistinct(rapid.IntRange(0, len(toggled)-1), 0, 10, rapid.ID[int]).Draw(t, "pre")
	nw := rapid.IntRange(1, 4).Draw(t, "nwriters")
	nr := rapid.IntRange(1, 6).Draw(t, "nreaders")
	// "duel": several writers toggle the same two or three routes - among them one whose node lies above
	// never-touched routes - so that a Remove and a Remove+Handle of the same pattern keep meeting
	var duel []int
	duelKeep := -1
	mini := rapid.IntRange(0, 3).Draw(t, "mini") == 0
	if mini {
		p.Rounds = rapid.SampledFrom([]int{100, 300, 600}).Draw(t, "rounds")
		p.Pre = nil
		p.Mass = 0 // every round builds a fresh router
		nr = rapid.IntRange(0, 2).Draw(t, "miniReaders")
	}
	if mini || rapid.IntRange(0, 2).Draw(t, "duel") == 0 {
		nw = rapid.IntRange(2, 4).Draw(t, "duelWriters")
		if rapid.IntRange(0, 2).Draw(t, "rivals") == 0 {
			// two writers race to register (and remove) the two spellings of one route
			pair := rapid.SampledFrom(rivalPairs).Draw(t, "rivalPair")
			duel = []int{pair[0], pair[1]}
		} else {
			pair := rapid.SampledFrom(duelPairs[:3]).Draw(t, "duelPair")
			duel = []int{pair[0], pair[0], pair[1]}
			duelKeep = pair[1]
			if rapid.Bool().Draw(t, "duelAbove") {
				duel = append(duel, rapid.SampledFrom([]int{1, 5}).Draw(t, "duelAboveP")) // a node above never-touched routes
			}
		}
	}
	for w := 0; w < nw; w++ {
		var ops []WOp
		wlen := rapid.IntRange(20, rig.Up(200)).Draw(t, "wlen")
		if duel != nil {
			wlen = rapid.IntRange(500, rig.Up(3000)).Draw(t, "duelLen") // a duel is cheap per step and needs many rounds
		}
		if mini {
			wlen = rapid.IntRange(1, 4).Draw(t, "miniLen")
		}
		for i, n := 0, wlen; i < n; i++ {
			op := WOp{P: rapid.IntRange(0, len(toggled)-1).Draw(t, "wp"), Yield: rapid.IntRange(0, 3).Draw(t, "wy") == 0}
			k := rapid.IntRange(0, 9).Draw(t, "wk")
			if duel != nil {
				op.P = rapid.SampledFrom(duel).Draw(t, "duelP")
				if k >= 8 {
					k = 5 // only Handle and Remove
				}
				if op.P == duelKeep {
					k = 0 // the lower route is only ever registered: nothing in the program removes it
				}
			}
			switch {
			case rapid.IntRange(0, 11).Draw(t, "noop") == 0:
				op.Kind = "noop"
				op.P = rapid.IntRange(0, len(noops)-1).Draw(t, "noopP")
			case k < 5:
				op.Kind = "handle"
				op.Methods = rapid.SampledFrom(methodSets).Draw(t, "wms")
			case k < 8:
				op.Kind = "remove"
			case k < 9:
				op.Kind = "removeM"
				op.Methods = rapid.SampledFrom(methodSets[:3]).Draw(t, "wrm")
			default:
				op.Kind = "cleanPrefix"
				op.P = rapid.IntRange(0, len(cleanPrefixes)-1).Draw(t, "wcp")
			}
			ops = append(ops, op)
		}
		p.Writers = append(p.Writers, ops)
	}
	for r := 0; r < nr; r++ {
		var ops []ROp
		rlen := rapid.IntRange(20, rig.Up(200)).Draw(t, "rlen")
		if mini {
			rlen = rapid.IntRange(1, 5).Draw(t, "miniRlen")
		}
		for i, n := 0, rlen; i < n; i++ {
			op := ROp{Yield: rapid.IntRange(0, 3).Draw(t, "ry") == 0}
			if p.Mass > 0 && i == 0 {
				// with a table of unusual size every reader opens with a listing: they all start at once
				ops = append(ops, ROp{Kind: "routes"})
				continue
			}
			switch k := rapid.IntRange(0, 9).Draw(t, "rk"); {
			case k < 4:
				op.Kind = "untouched"
				op.P = rapid.IntRange(0, len(untouched)-1).Draw(t, "rup")
				op.M = rapid.SampledFrom([]string{"GET", "GET", "HEAD", "PUT", "OPTIONS"}).Draw(t, "rum")
			case k < 7:
				op.Kind = "toggled"
				op.P = rapid.IntRange(0, len(toggled)-1).Draw(t, "rtp")
				op.M = rapid.SampledFrom([]string{"GET", "POST", "OPTIONS", "DELETE"}).Draw(t, "rtm")
			case k < 8 || (p.Mass > 0 && k < 9):
				op.Kind = "routes"
				if p.Recovery && rapid.Bool().Draw(t, "rpanic") {
					op.Kind = "panic"
					op.P = rapid.IntRange(0, 1).Draw(t, "rpanicWhere") // 0: the handler panics, 1: the route's interceptor function does
				}
			default:
				op.Kind = "url"
				op.P = rapid.IntRange(0, len(untouched)+len(toggled)-1).Draw(t, "rurl")
			}
			ops = append(ops, op)
		}
		p.Readers = append(p.Readers, ops)
	}
	return p
}

// ---- child ------------------------------------------------------------------

func tag(pattern string, n int64) string { return fmt.Sprintf("%s#%d", pattern, n) }

func patternOfID(id string) string {
	if i := strings.LastIndexByte(id, '#'); i >= 0 {
		return id[:i]
	}
	return id
}

func runProgram(p Program) (map[string]float64, *rig.Violation) {
	var hid atomic.Int64
	newH := func(pattern string) *rig.H { return &rig.H{ID: tag(pattern, hid.Add(1)), Kind: "route"} }
	opts := []mux.Option{mux.WithLock(true)}
	if p.Trace {
		opts = append(opts, mux.WithTrace(&rig.H{ID: "trace", Kind: "route"}))
	}
	var recovered atomic.Int64
	if p.Recovery {
		opts = append(opts, mux.WithRecovery(func(w http.ResponseWriter, msg any) {
			recovered.Add(1)
			w.WriteHeader(http.StatusInternalServerError)
		}))
		// user code that runs while the tree is being searched: an interceptor that panics on one value
		opts = append(opts, mux.WithInterceptor(func(v string) bool {
			if v == "boom" {
				panic("interceptor boom")
			}
			return v != ""
		}, "pid"))
	}
	b405 := func(n types.Node) *rig.H { return &rig.H{ID: "405", Kind: "405", Node: n} }
	bopt := func(n types.Node) *rig.H { return &rig.H{ID: "options", Kind: "options", Node: n} }
	var r *mux.Router[*rig.H]
	var front http.Handler
	if p.ViaGroup {
		g := mux.NewGroup[*rig.H](rig.Call, &rig.H{ID: "404", Kind: "404"}, b405, bopt)
		r = g.New("r", nil, opts...)
		front = g
	} else {
		r = mux.NewRouter[*rig.H]("r", rig.Call, &rig.H{ID: "404", Kind: "404"}, b405, bopt, opts...)
		front = r
	}
	uid := map[string]string{}
	for _, u := range untouched {
		h := newH(u.pattern)
		uid[u.pattern] = h.ID
		r.Handle(u.pattern, h, nil, u.methods...)
	}
	if p.Recovery {
		r.Handle(boom.pattern, &rig.H{ID: tag(boom.pattern, hid.Add(1)), Kind: "route", Script: []rig.Action{{Op: "panic", V: "boom"}}}, nil, boom.methods...)
		r.Handle("/pi/{id:pid}", newH("/pi/{id:pid}"), nil, "GET")
	}
	for _, i := range p.Pre {
		rig.Try(func() { r.Handle(toggled[i].pattern, newH(toggled[i].pattern), nil, "GET") })
	}
	if p.Rounds > 1 {
		// every pattern some writer removes exists when the round starts
		for _, ops := range p.Writers {
			for _, op := range ops {
				if op.Kind == "remove" || op.Kind == "removeM" {
					rig.Try(func() { r.Handle(toggled[op.P].pattern, newH(toggled[op.P].pattern), nil, "GET") })
				}
			}
		}
	}
	parsed := map[string]*pat.Pattern{}
	all := map[string]bool{}
	for _, u := range untouched {
		parsed[u.pattern] = pat.MustParse(u.pattern, nil)
		all[u.pattern] = true
	}
	for _, tg := range toggled {
		parsed[tg.pattern] = pat.MustParse(tg.pattern, nil)
		all[tg.pattern] = true
	}
	for i := 0; i < p.Mass; i++ {
		mp := fmt.Sprintf("/mass/%d", i)
		r.Handle(mp, newH(mp), nil, "GET")
		all[mp] = true
	}
	if p.Recovery {
		parsed[boom.pattern] = pat.MustParse(boom.pattern, nil)
		all[boom.pattern] = true
		all["/pi/{id:pid}"] = true
	}
	allow := func(ms []string) []string {
		set := map[string]bool{"OPTIONS": true}
		if p.Trace {
			set["TRACE"] = true
		}
		for _, m := range ms {
			set[m] = true
			if m == "GET" {
				set["HEAD"] = true
			}
		}
		var out []string
		for m := range set {
			out = append(out, m)
		}
		sort.Strings(out)
		return out
	}

	pTrace := p.Trace
	var writersActive atomic.Int32
	var overlaps, rops, wops atomic.Int64
	var viol atomic.Pointer[rig.Violation]
	fail := func(v *rig.Violation) { viol.CompareAndSwap(nil, v) }
	start := make(chan struct{})
	var wg sync.WaitGroup

	for wi, ops := range p.Writers {
		wg.Add(1)
		go func(wi int, ops []WOp) {
			defer wg.Done()
			<-start
			for _, op := range ops {
				if viol.Load() != nil {
					return
				}
				writersActive.Add(1)
				v, panicked := rig.Try(func() {
					switch op.Kind {
					case "handle":
						r.Handle(toggled[op.P].pattern, newH(toggled[op.P].pattern), nil, op.Methods...)
					case "remove":
						r.Remove(toggled[op.P].pattern)
					case "removeM":
						r.Remove(toggled[op.P].pattern, op.Methods...)
					case "cleanPrefix":
						r.Prefix(cleanPrefixes[op.P]).Clean()
					case "noop":
						noops[op.P].call(r, newH("noop"))
					}
				})
				writersActive.Add(-1)
				wops.Add(1)
				if op.Kind == "noop" && noops[op.P].refused != panicked {
					fail(rig.Violf("noop-verdict", "writer %d: %s: panicked=%v (%v), must be refused=%v", wi, noops[op.P].name, panicked, v, noops[op.P].refused))
				}
				if panicked {
					if _, isErr := v.(error); !isErr || (op.Kind != "handle" && !(op.Kind == "noop" && noops[op.P].refused)) {
						fail(rig.Violf("writer-fault", "writer %d op %+v panicked: %v", wi, op, v))
					} else if _, rt := v.(runtime.Error); rt {
						fail(rig.Violf("writer-fault", "writer %d op %+v panicked: %v", wi, op, v))
					}
				}
				if op.Yield {
					runtime.Gosched()
				}
			}
		}(wi, ops)
	}
	for ri, ops := range p.Readers {
		wg.Add(1)
		go func(ri int, ops []ROp) {
			defer wg.Done()
			<-start
			for i, op := range ops {
				if viol.Load() != nil {
					return
				}
				before := writersActive.Load()
				where := fmt.Sprintf("reader %d op %d %+v", ri, i, op)
				switch op.Kind {
				case "untouched":
					u := untouched[op.P]
					path, params := u.path(fmt.Sprint(ri*1000 + i))
					o := rig.Serve(front, rig.Req{Method: op.M, Path: path})
					served := false
					for _, m := range u.methods {
						if m == op.M || (m == "GET" && op.M == "HEAD") {
							served = true
						}
					}
					switch {
					case o.Panicked:
						fail(rig.Violf("reader-fault", "%s: %s %s panicked: %v", where, op.M, path, o.PanicVal))
					case o.HandlerNil:
						fail(rig.Violf("zero-handler", "%s: %s %s was handed a zero handler", where, op.M, path))
					case o.Pattern != u.pattern:
						fail(rig.Violf("untouched-route-lost", "%s: %s %s (never-touched route %q) was routed to %q (%s)", where, op.M, path, u.pattern, o.Pattern, o.HandlerID))
					case !rig.EqualParams(o.Params, params):
						fail(rig.Violf("foreign-params", "%s: %s %s saw params %v, its own are %v", where, op.M, path, o.Params, params))
					case served && o.BaseID != uid[u.pattern]:
						fail(rig.Violf("foreign-handler", "%s: %s %s ran %s, registered %s", where, op.M, path, o.BaseID, uid[u.pattern]))
					case !served && op.M == "OPTIONS" && (o.BaseKind != "options" || !rig.EqualSets(o.Allow(), allow(u.methods))):
						fail(rig.Violf("untouched-allow", "%s: OPTIONS %s answered by %s with Allow %v, want %v", where, path, o.BaseKind, o.Allow(), allow(u.methods)))
					case !served && op.M != "OPTIONS" && (o.BaseKind != "405" || !rig.EqualSets(o.Allow(), allow(u.methods))):
						fail(rig.Violf("untouched-allow", "%s: %s %s answered by %s with Allow %v, want 405 with %v", where, op.M, path, o.BaseKind, o.Allow(), allow(u.methods)))
					}
				case "toggled":
					tg := toggled[op.P]
					o := rig.Serve(front, rig.Req{Method: op.M, Path: tg.path})
					switch {
					case o.Panicked:
						fail(rig.Violf("reader-fault", "%s: %s %s panicked: %v", where, op.M, tg.path, o.PanicVal))
					case o.HandlerNil:
						fail(rig.Violf("zero-handler", "%s: %s %s was handed a zero handler (route %q)", where, op.M, tg.path, o.Pattern))
					case o.BaseKind == "404":
						if len(o.Params) != 0 {
							fail(rig.Violf("404-with-params", "%s: %v", where, o.Params))
						}
					default:
						pp := parsed[o.Pattern]
						if pp == nil || !pp.Conforms(tg.path, o.Params) {
							fail(rig.Violf("not-conforming", "%s: %s %s answered by route %q with params %v", where, op.M, tg.path, o.Pattern, o.Params))
						} else if o.BaseKind == "route" && patternOfID(o.BaseID) != o.Pattern {
							fail(rig.Violf("foreign-handler", "%s: %s %s on route %q ran handler %s registered for %q", where, op.M, tg.path, o.Pattern, o.BaseID, patternOfID(o.BaseID)))
						} else if o.BaseKind != "route" && o.BuiltFor != o.Pattern {
							fail(rig.Violf("foreign-handler", "%s: %s %s on route %q ran the %s handler of %q", where, op.M, tg.path, o.Pattern, o.BaseKind, o.BuiltFor))
						}
					}
				case "panic":
					if op.P == 1 {
						// the panic happens inside the interceptor, i.e. while the router searches its tree
						o := rig.Serve(front, rig.Req{Method: "GET", Path: "/pi/boom"})
						if o.Panicked || o.EffStatus() != http.StatusInternalServerError {
							fail(rig.Violf("recovery-not-run", "%s: GET /pi/boom (the interceptor panics): escaped=%v (%v), status %d; the recovery function writes 500", where, o.Panicked, o.PanicVal, o.EffStatus()))
						}
						break
					}
					path, params := boom.path(fmt.Sprint(ri*1000 + i))
					o := rig.Serve(front, rig.Req{Method: "GET", Path: path})
					switch {
					case o.Panicked:
						fail(rig.Violf("reader-fault", "%s: GET %s: the handler's panic was not recovered although the router has a recovery function: %v", where, path, o.PanicVal))
					case o.Pattern != boom.pattern || !rig.EqualParams(o.Params, params):
						fail(rig.Violf("foreign-params", "%s: GET %s reached route %q with params %v, its own are %v", where, path, o.Pattern, o.Params, params))
					case o.EffStatus() != http.StatusInternalServerError:
						fail(rig.Violf("recovery-not-run", "%s: GET %s: status %d, the recovery function writes 500", where, path, o.EffStatus()))
					}
				case "routes":
					var routes map[string][]string
					if v, panicked := rig.Try(func() { routes = r.Routes() }); panicked {
						fail(rig.Violf("reader-fault", "%s: Routes() panicked: %v", where, v))
						break
					}
					for p, ms := range routes {
						if p != "*" && !all[p] {
							fail(rig.Violf("routes-unknown-pattern", "%s: Routes() lists %q", where, p))
						}
						// whatever instant the listing shows, a listed pattern has its OPTIONS and at least one more method
						// (with a TRACE handler: one more besides TRACE) - no state of a router lists a pattern with less
						min, hasOpt := 2, false
						if p == "*" {
							min = 1
						}
						for _, m := range ms {
							hasOpt = hasOpt || m == "OPTIONS"
							if m == "TRACE" && pTrace {
								min++
							}
						}
						if !hasOpt || len(ms) < min {
							fail(rig.Violf("routes-impossible-entry", "%s: Routes()[%q] = %v - no router ever lists a pattern like that (the whole listing: %v)", where, p, ms, routes))
						}
					}
					for _, u := range untouched {
						if !rig.EqualSets(routes[u.pattern], allow(u.methods)) {
							fail(rig.Violf("routes-untouched", "%s: Routes()[%q]=%v, want %v", where, u.pattern, routes[u.pattern], allow(u.methods)))
						}
					}
					for i := 0; i < p.Mass; i += 37 {
						if mp := fmt.Sprintf("/mass/%d", i); !rig.EqualSets(routes[mp], allow([]string{"GET"})) {
							fail(rig.Violf("routes-untouched", "%s: Routes()[%q]=%v, want %v", where, mp, routes[mp], allow([]string{"GET"})))
						}
					}
				case "url":
					if op.P < len(untouched) {
						u := untouched[op.P]
						path, params := u.path(fmt.Sprint(i))
						var got string
						var err error
						if v, panicked := rig.Try(func() { got, err = r.URL(true, u.pattern, params) }); panicked {
							fail(rig.Violf("reader-fault", "%s: URL panicked: %v", where, v))
						} else if err != nil || got != path {
							fail(rig.Violf("url-untouched", "%s: strict URL(%q, %v) = %q, %v; want %q", where, u.pattern, params, got, err, path))
						}
					} else if i%3 == 0 {
						// non-strict: no tree involved, only the pattern parser (shared by every router in the process)
						pattern := fmt.Sprintf(`/u%d/{id:\d+}/{name:[a-z]+}-%d`, ri, i)
						var got string
						var err error
						if v, panicked := rig.Try(func() { got, err = r.URL(false, pattern, map[string]string{"id": "7", "name": "n"}) }); panicked {
							fail(rig.Violf("reader-fault", "%s: URL panicked: %v", where, v))
						} else if want := fmt.Sprintf("/u%d/7/n-%d", ri, i); err != nil || got != want {
							fail(rig.Violf("url-nonstrict", "%s: URL(false, %q) = %q, %v; want %q", where, pattern, got, err, want))
						}
					} else {
						tg := toggled[op.P-len(untouched)]
						params := map[string]string{"id": "v1", "uid": "v1", "a": "a", "a2": "a", "n": "5", "m": "5", "any": "zzz", "z": "q", "w": "w"}
						var got string
						var err error
						if v, panicked := rig.Try(func() { got, err = r.URL(true, tg.pattern, params) }); panicked {
							fail(rig.Violf("reader-fault", "%s: URL panicked: %v", where, v))
						} else if err == nil && got != tg.path {
							fail(rig.Violf("url-toggled", "%s: strict URL(%q) = %q, want %q or an error", where, tg.pattern, got, tg.path))
						}
					}
				}
				rops.Add(1)
				if before > 0 || writersActive.Load() > 0 {
					overlaps.Add(1)
				}
				if op.Yield {
					runtime.Gosched()
				}
			}
		}(ri, ops)
	}
	close(start)
	done := make(chan struct{})
	go func() { wg.Wait(); close(done) }()
	select {
	case <-done:
	case <-time.After(40 * time.Second):
		// the whole program normally takes well under a second: look at what everybody is doing
		buf := make([]byte, 1<<22)
		buf = buf[:runtime.Stack(buf, true)]
		prog, blocked := 0, 0
		for _, g := range strings.Split(string(buf), "\n\n") {
			if !strings.Contains(g, "c06.runProgram.func") || strings.Contains(g, "time.After") || strings.Contains(g, "wg.Wait") || strings.Contains(g, "sync.(*WaitGroup).Wait") {
				continue
			}
			prog++
			if strings.Contains(g, "sync.(*RWMutex).") {
				blocked++
			}
		}
		if prog > 0 && prog == blocked {
			return nil, rig.Violf("deadlock", "after 40s all %d remaining program goroutines are blocked on the router's RWMutex (no goroutine can make progress): %s", prog, firstLines(string(buf), 60))
		}
		fmt.Printf("CHILD-STALL %d goroutines, %d blocked on the lock\n", prog, blocked)
		os.Exit(5)
	}
	// quiescent again: a toggled route that some writer registered and that no operation of the program
	// could have removed (no Remove of it, no Prefix.Clean of one of its prefixes) must be live now
	removable := map[string]bool{}
	registered := map[string]bool{}
	for _, i := range p.Pre {
		registered[toggled[i].pattern] = true
	}
	for _, ops := range p.Writers {
		for _, op := range ops {
			switch op.Kind {
			case "handle":
				registered[toggled[op.P].pattern] = true
			case "remove", "removeM":
				removable[toggled[op.P].pattern] = true
			case "cleanPrefix":
				for _, tg := range toggled {
					if strings.HasPrefix(tg.pattern, cleanPrefixes[op.P]) {
						removable[tg.pattern] = true
					}
				}
			}
		}
	}
	rival := map[string]string{}
	for _, pr := range rivalPairs {
		rival[toggled[pr[0]].pattern], rival[toggled[pr[1]].pattern] = toggled[pr[1]].pattern, toggled[pr[0]].pattern
	}
	if viol.Load() == nil {
		// the state all goroutines left behind must be a state of a sequential router: never both spellings of
		// one route, and Routes(), the Allow sets and dispatch agree with each other
		routes := r.Routes()
		for a, b := range rival {
			if _, ok := routes[a]; ok && a < b {
				if _, ok := routes[b]; ok {
					fail(rig.Violf("ambiguous-routes-both-live", "after all goroutines finished Routes() lists both %q and %q, which differ only in parameter names: %v", a, b, routes))
				}
			}
		}
		for _, tg := range toggled {
			listed, live := routes[tg.pattern]
			for _, m := range []string{"GET", "HEAD", "POST", "PUT", "DELETE", "PATCH", "OPTIONS"} {
				o := rig.Serve(front, rig.Req{Method: m, Path: tg.path})
				if o.Panicked || o.HandlerNil {
					fail(rig.Violf("quiescent-fault", "after all goroutines finished %s %s: panicked=%v (%v) zero handler=%v", m, tg.path, o.Panicked, o.PanicVal, o.HandlerNil))
					continue
				}
				if o.Pattern != tg.pattern {
					continue // answered by another route of higher priority, or 404
				}
				has := false
				for _, x := range listed {
					has = has || x == m
				}
				switch {
				case !live:
					fail(rig.Violf("routes-dispatch-disagree", "after all goroutines finished %s %s is answered on route %q (%s), which Routes() does not list: %v", m, tg.path, tg.pattern, o.BaseKind, routes))
				case m != "OPTIONS" && has != (o.BaseKind == "route"):
					fail(rig.Violf("routes-dispatch-disagree", "after all goroutines finished Routes()[%q]=%v but %s %s is answered by the %s handler %s", tg.pattern, listed, m, tg.path, o.BaseKind, o.BaseID))
				case !rig.EqualSets(o.NodeMethods, listed):
					fail(rig.Violf("routes-dispatch-disagree", "after all goroutines finished Routes()[%q]=%v but the node serving %s %s reports methods %v", tg.pattern, listed, m, tg.path, o.NodeMethods))
				}
			}
		}
		// the never-touched routes: still listed with their full method sets and served by their own handlers
		for _, u := range untouched {
			if !rig.EqualSets(routes[u.pattern], allow(u.methods)) {
				fail(rig.Violf("untouched-route-changed", "after all goroutines finished Routes()[%q]=%v, want %v (no operation of the program touches it)", u.pattern, routes[u.pattern], allow(u.methods)))
			}
			path, want := u.path("7")
			o := rig.Serve(front, rig.Req{Method: u.methods[0], Path: path})
			if o.Panicked || o.BaseKind != "route" || o.BaseID != uid[u.pattern] || !rig.EqualParams(o.Params, want) {
				fail(rig.Violf("untouched-route-changed", "after all goroutines finished %s %s: kind=%s handler=%s params=%v panicked=%v, want handler %s with %v", u.methods[0], path, o.BaseKind, o.BaseID, o.Params, o.Panicked, uid[u.pattern], want))
			}
		}
		// a toggled route that only one writer ever touches has, in the end, the state that writer's own operations
		// leave behind when run one after the other - whatever the other goroutines did meanwhile
		for ti, tg := range toggled {
			if rival[tg.pattern] != "" {
				continue
			}
			owner, owners := -1, 0
			for wi, ops := range p.Writers {
				for _, op := range ops {
					touches := (op.Kind == "handle" || op.Kind == "remove" || op.Kind == "removeM") && op.P == ti ||
						op.Kind == "cleanPrefix" && strings.HasPrefix(tg.pattern, cleanPrefixes[op.P])
					if touches && owner != wi {
						owner = wi
						owners++
					}
				}
			}
			if owners != 1 || p.Rounds > 1 {
				continue
			}
			tb := ref.NewTable(p.Trace)
			for _, i := range p.Pre {
				if i == ti {
					tb.Handle(tg.pattern, "pre", []string{"GET"})
				}
			}
			for _, op := range p.Writers[owner] {
				switch {
				case op.Kind == "handle" && op.P == ti:
					if tb.RejectReason(tg.pattern, op.Methods) == "" {
						tb.Handle(tg.pattern, "w", op.Methods)
					}
				case op.Kind == "remove" && op.P == ti:
					tb.Remove(tg.pattern)
				case op.Kind == "removeM" && op.P == ti:
					if len(op.Methods) == 0 {
						tb.Remove(tg.pattern)
					} else {
						tb.Remove(tg.pattern, op.Methods...)
					}
				case op.Kind == "cleanPrefix" && strings.HasPrefix(tg.pattern, cleanPrefixes[op.P]):
					tb.Remove(tg.pattern)
				}
			}
			got, listed := routes[tg.pattern]
			if tb.R[tg.pattern] == nil && listed {
				fail(rig.Violf("single-writer-final-state", "only writer %d touches %q and its operations, run in order, end with the route removed; after all goroutines finished Routes() lists it with %v", owner, tg.pattern, got))
			} else if tb.R[tg.pattern] != nil && !rig.EqualSets(got, tb.AllowSet(tg.pattern)) {
				fail(rig.Violf("single-writer-final-state", "only writer %d touches %q and its operations, run in order, end with methods %v; after all goroutines finished Routes() shows %v", owner, tg.pattern, tb.AllowSet(tg.pattern), got))
			}
		}
		for _, tg := range toggled {
			if rv := rival[tg.pattern]; rv != "" && (registered[rv] || (p.Rounds > 1 && removable[rv])) {
				// its registration may have been refused because the other spelling was live (a mini program starts
				// with every pattern some writer removes already registered)
				continue
			}
			if registered[tg.pattern] && !removable[tg.pattern] {
				if _, ok := routes[tg.pattern]; !ok {
					fail(rig.Violf("never-removed-route-lost", "%q was registered and no operation of the program removes it, but after all goroutines finished Routes() does not list it: %v", tg.pattern, routes))
				}
			}
		}
	}
	st := map[string]float64{"reader_ops": float64(rops.Load()), "writer_ops": float64(wops.Load()), "overlapping_reader_ops": float64(overlaps.Load())}
	return st, viol.Load()
}

func firstLines(s string, n int) string {
	l := strings.SplitN(s, "\n", n+1)
	if len(l) > n {
		l = l[:n]
	}
	return strings.Join(l, " | ")
}

func TestChild(t *testing.T) {
	enc := rig.ChildCase()
	if enc == "" {
		t.Skip("not a child process")
	}
	var p Program
	if err := rig.DecodeCase(enc, &p); err != nil {
		fmt.Println("cannot decode case:", err)
		os.Exit(4)
	}
	rounds := p.Rounds
	if rounds < 1 {
		rounds = 1
	}
	total := map[string]float64{}
	for round := 0; round < rounds; round++ {
		st, v := runProgram(p)
		if v != nil {
			v.Msg = fmt.Sprintf("round %d of %d: %s", round, rounds, v.Msg)
			rig.ChildViolation(v)
		}
		for k, x := range st {
			total[k] += x
		}
	}
	total["rounds"] = float64(rounds)
	rig.ChildOK(total)
}

// ---- parent -----------------------------------------------------------------

var stats = rig.NewStats("C06",
	"rapid draws a concurrent program: 1-4 writer scripts (20-200 Handle / Remove / Remove(methods) / Prefix.Clean ops on ten toggled patterns chosen to split and re-merge the nodes of three never-touched routes) and 1-6 reader scripts (20-200 ops: requests to never-touched routes with per-op distinct parameter values, requests to toggled routes, OPTIONS / 405 probes, Routes(), strict URL), generated Gosched points, GOMAXPROCS in {2,4,16}; the program runs in a child process built with -race (halt_on_error) on a WithLock(true) router. Half of the programs run on a router that also has a TRACE handler. Oracle: no race report, no fatal runtime error, no deadlock (after 40 s every remaining program goroutine blocked on the router's lock), child exits 0; never-touched routes are always answered by their own handler with their own parameters and exact Allow sets; toggled requests get 404, or a handler / 405 / OPTIONS belonging to the very route they report with conforming parameters - never a zero or foreign handler; Routes() only lists program patterns and always the never-touched ones, and every listed pattern has OPTIONS and at least one more method (a listing is a snapshot of one state); strict URL of never-touched routes always succeeds. A third of the programs run with WithRecovery, a never-touched route whose handler panics and one whose interceptor function panics on one value, i.e. while the tree is searched under the read lock (readers request both: 500, own route, own parameters - and the router must go on working). A quarter of the programs reach the router through Group.ServeHTTP (router made by Group.New, matcher nil). One program in four is a mini program (2-4 writers x 1-4 operations on a duel pair or on a rival pair - one route under two parameter names - re-run 100-600 times on fresh routers). Once all goroutines have finished the state must be one a sequential router can be in: never both routes of a rival pair listed, every route that was registered and that nothing removes listed, and for every toggled route and seven methods Routes(), the node's method list and dispatch agree. Non-trivial: a program in which reader operations overlapped a writer operation (sampled with an atomic in-flight counter; the overlapping count is reported); distinct by hash of the program. Later additions to the generated domain: Writers also issue calls that by contract change nothing (removals naming only ignored / unknown / unregistered methods or absent patterns, registrations that must be refused) aimed at the never-touched routes, whose listing and dispatch are checked once more after all goroutines have finished; one program in six starts with 101-520 further never-touched routes and every reader then opens with Routes(). Two toggled routes are spelt {id:} / {-z:}; once all goroutines have finished, a toggled route that only one writer ever touches must be in the state that writer's own operations leave behind when run in order.",
	"interleavings are sampled by the Go scheduler, not enumerated; the race detector's happens-before analysis flags unsynchronised access pairs once both accesses execute",
	"Router.Use is not part of the program (the property does not list it)")

func check(p Program, st *rig.Stats) error {
	enc, err := rig.EncodeCase(p)
	if err != nil {
		return err
	}
	tries := 1
	if os.Getenv("VERIF_REPLAY") != "" {
		tries = 30 // a schedule-dependent failure is re-run until it shows again
		if n, err := strconv.Atoi(os.Getenv("VERIF_REPLAY_TRIES")); err == nil && n > 0 {
			tries = n
		}
	}
	var res rig.ChildResult
	for i := 0; i < tries; i++ {
		res = rig.RunChild("TestChild", enc, p.Procs, 120*time.Second)
		if res.Kind != "ok" {
			break
		}
	}
	switch res.Kind {
	case "ok":
		st.Eval(p, res.Stats["overlapping_reader_ops"] > 0 || p.Rounds > 1, fmt.Sprintf("procs=%d", p.Procs))
		if p.Rounds > 1 {
			st.Class(fmt.Sprintf("mini-program-x%d-rounds", p.Rounds))
		}
		st.Class("reader-ops-total")
		for i := 0; i < int(res.Stats["overlapping_reader_ops"]); i += 50 {
			st.Class("overlapping-reader-ops(x50)")
		}
		return nil
	case "timeout", "other":
		fmt.Printf("INCONCLUSIVE child (%s):\n%s\n", res.Kind, tail(res.Detail, 3000))
		st.Class("inconclusive-child:" + res.Kind)
		return nil
	}
	if rig.Excluded(res.Sig) {
		st.Exclude(res.Sig)
		return nil
	}
	return rig.Violf(res.Sig, "child process: %s", tail(res.Detail, 6000))
}

func tail(s string, n int) string {
	if len(s) > n {
		return "…" + s[len(s)-n:]
	}
	return s
}

func TestProp(t *testing.T) { rig.RunProp(t, stats, gen, check) }
