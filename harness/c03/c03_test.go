// C03 — route table lifecycle: registered is reachable, removed is gone, rest untouched.
package c03

import (
	"fmt"
	"sort"
	"testing"

	"pgregory.net/rapid"

	"verif/harness/life"
	"verif/harness/pat"
	"verif/harness/rig"
)

type Case struct {
	Icpt    string    `json:"icpt"`
	Trace   bool      `json:"trace"`
	Pool    []string  `json:"pool"`
	Ops     []life.Op `json:"ops"`
	Paths   []string  `json:"paths"`
	Variant int       `json:"variant"`
}

func gen(t *rapid.T) Case {
	cfg := pat.GenCfg(t, true)
	c := Case{Icpt: cfg.IcptName, Trace: rapid.IntRange(0, 4).Draw(t, "trace") == 0}
	c.Pool = pat.GenPool(t, cfg, rapid.IntRange(3, rig.Up(14)).Draw(t, "npool"))
	c.Ops = life.GenOps(t, cfg, c.Pool, rapid.IntRange(2, rig.Up(30)).Draw(t, "nops"),
		life.GenOpts{Facades: true, Hostile: true, NewMethods: true, Trace: c.Trace})
	var parsed []*pat.Pattern
	for _, p := range c.Pool {
		parsed = append(parsed, pat.MustParse(p, cfg.Icpt))
	}
	for i, n := 0, rapid.IntRange(0, 3).Draw(t, "npaths"); i < n; i++ {
		c.Paths = append(c.Paths, pat.GenPath(t, parsed))
	}
	c.Variant = rapid.IntRange(0, 11).Draw(t, "variant")
	return c
}

type probe struct{ M, Path string }

type obs struct {
	probe
	Kind, BaseID, Pattern string
	Params                map[string]string
}

func sameRoutes(got, want map[string][]string) bool {
	if len(got) != len(want) {
		return false
	}
	for k, v := range want {
		g, ok := got[k]
		if !ok || !rig.EqualSets(g, v) || len(g) != len(v) {
			return false
		}
	}
	return true
}

func check(c Case, st *rig.Stats) error {
	env := rig.NewEnv()
	s := life.NewSys(env, c.Icpt, rig.Opts{Trace: c.Trace})
	var prev []obs
	removedSomething := false // the panic clause of C03 speaks about requests after a Remove / Clean
	nontriv := false
	var classes []string
	hist := func(i int) string {
		var out []string
		for j := 0; j <= i && j < len(c.Ops); j++ {
			out = append(out, c.Ops[j].String())
		}
		return fmt.Sprint(out)
	}
	for i, op := range c.Ops {
		liveBefore := s.LiveParsed()
		res := s.Apply(op)
		if v := s.Complaint(); v != nil {
			return v
		}
		if res.Removal {
			removedSomething = true
		}
		if res.Panicked && res.Removal {
			return rig.Violf("removal-panicked", "step %d %s panicked: %v; history %s", i, op, res.PanicVal, hist(i))
		}
		// non-triviality: a pattern vanished while a relative stayed
		if res.Removal && len(res.Touched) > 0 {
			vanished := map[string]bool{}
			for pm := range res.Touched {
				if s.M.R[pm.P] == nil {
					vanished[pm.P] = true
				}
			}
			for p := range vanished {
				pp := s.Parsed(p)
				for _, q := range s.LiveParsed() {
					if pat.FirstDiff(pp, q) >= 1 {
						nontriv = true
					}
				}
				if _, kids := life.Siblings(pp, liveBefore); kids >= 5 {
					classes = append(classes, "removed-under-parent-with>=5-children")
					if len(s.M.R) > 0 {
						classes = append(classes, "…and-siblings-stayed")
					}
				}
			}
		}
		// (1) Routes()
		var routes map[string][]string
		if v, panicked := rig.Try(func() { routes = s.R.Routes() }); panicked {
			return rig.Violf("routes-panicked", "after step %d %s: Routes() panicked: %v; history %s", i, op, v, hist(i))
		}
		if want := s.M.Render(); !sameRoutes(routes, want) {
			return rig.Violf("routes", "after step %d %s: Routes()=%v, model says %v; history %s", i, op, routes, want, hist(i))
		}
		// (4) frame condition for removals
		if res.Removal {
			for _, b := range prev {
				if b.Kind != "route" {
					continue
				}
				m := b.M
				if m == "HEAD" {
					m = "GET"
				}
				if res.Touched[life.PM{P: b.Pattern, M: m}] {
					continue
				}
				o := s.Get(b.M, b.Path)
				if o.Panicked {
					return rig.Violf("panic", "after step %d %s: %s %q panicked: %v; history %s", i, op, b.M, b.Path, o.PanicVal, hist(i))
				}
				if o.BaseID != b.BaseID || o.Pattern != b.Pattern || !rig.EqualParams(o.Params, b.Params) {
					return rig.Violf("frame", "step %d %s changed %s %q: before %s on %q %v, after %s(%s) on %q %v, although (%q,%s) was not touched; history %s",
						i, op, b.M, b.Path, b.BaseID, b.Pattern, b.Params, o.BaseID, o.BaseKind, o.Pattern, o.Params, b.Pattern, m, hist(i))
				}
			}
		}
		// (2) every live (p, m): witness judged; builds the observation vector
		var cur []obs
		live := s.LiveParsed()
		for _, p := range live {
			path, wparams, ok := p.Witness(c.Variant)
			if !ok {
				classes = append(classes, "no-simple-witness")
				continue
			}
			for _, m := range life.ProbeMethods {
				o := s.Get(m, path)
				if o.Panicked {
					if !removedSomething {
						classes = append(classes, "panic-before-any-removal(C05's-subject)")
						continue
					}
					return rig.Violf("panic", "after step %d %s: %s %q panicked: %v; history %s", i, op, m, path, o.PanicVal, hist(i))
				}
				cur = append(cur, obs{probe{m, path}, o.BaseKind, o.BaseID, o.Pattern, o.Params})
				if m == "TRACE" && c.Trace {
					if o.BaseKind != "trace" {
						return rig.Violf("trace", "after step %d: TRACE %q answered by %s", i, path, o.HandlerID)
					}
					continue
				}
				if o.BaseKind == "404" || o.HandlerNil {
					return rig.Violf("live-route-404", "after step %d %s: %s %q (witness of live %q) answered %s; live %v; history %s", i, op, m, path, p.Src, o.HandlerID, s.M.Live(), hist(i))
				}
				sel := s.Parsed(o.Pattern)
				if s.M.R[o.Pattern] == nil || sel == nil {
					return rig.Violf("selected-not-live", "after step %d %s: %s %q selected route %q which is not live; live %v; history %s", i, op, m, path, o.Pattern, s.M.Live(), hist(i))
				}
				if !sel.Conforms(path, o.Params) {
					return rig.Violf("not-conforming", "after step %d %s: %s %q selected %q with params %v which do not reproduce the path; history %s", i, op, m, path, o.Pattern, o.Params, hist(i))
				}
				if o.Pattern == p.Src {
					if !rig.EqualParams(o.Params, wparams) {
						return rig.Violf("witness-params", "after step %d %s: %s %q on %q reported %v, want %v; history %s", i, op, m, path, p.Src, o.Params, wparams, hist(i))
					}
				} else {
					d := pat.FirstDiff(p, sel)
					switch {
					case d >= len(sel.Atoms):
						return rig.Violf("prefix-route-won", "after step %d: witness %q of %q selected the shorter route %q", i, path, p.Src, o.Pattern)
					case d >= len(p.Atoms):
						if sel.Atoms[d].IsLit() {
							return rig.Violf("longer-literal-won", "after step %d: witness %q of %q selected %q", i, path, p.Src, o.Pattern)
						}
						classes = append(classes, "empty-matching-param-beat-static-end")
					case sel.Atoms[d].Rank() > p.Atoms[d].Rank():
						return rig.Violf("lower-priority-won", "after step %d %s: %s %q is the witness of live %q but was routed to %q, which has the lower-priority kind (%s vs %s) at their first difference; live %v; history %s",
							i, op, m, path, p.Src, o.Pattern, sel.Atoms[d].P.Kind, kindOf(p.Atoms[d]), s.M.Live(), hist(i))
					default:
						classes = append(classes, "same-or-higher-kind-sibling-won")
					}
				}
				// method lookup on the selected route
				want := s.M.Serves(o.Pattern, m)
				switch {
				case want != "":
					if o.BaseKind != "route" || o.BaseID != want {
						return rig.Violf("wrong-handler", "after step %d %s: %s %q on %q ran %s(%s), registered is %s; history %s", i, op, m, path, o.Pattern, o.BaseID, o.BaseKind, want, hist(i))
					}
				case m == "OPTIONS":
					if o.BaseKind != "options" {
						return rig.Violf("options-not-automatic", "after step %d %s: OPTIONS %q on live %q ran %s(%s); history %s", i, op, path, o.Pattern, o.BaseID, o.BaseKind, hist(i))
					}
				default:
					if o.BaseKind != "405" {
						return rig.Violf("expected-405", "after step %d %s: %s %q on %q (methods %v) ran %s(%s); history %s", i, op, m, path, o.Pattern, s.M.AllowSet(o.Pattern), o.BaseID, o.BaseKind, hist(i))
					}
				}
			}
		}
		// a second witness with other simple values must reach a live route too (the values decide which
		// constrained siblings are tried first)
		for _, p := range live {
			path, _, ok := p.Witness(c.Variant + 3)
			if !ok {
				continue
			}
			o := s.Get("GET", path)
			if o.Panicked {
				if !removedSomething {
					continue
				}
				return rig.Violf("panic", "after step %d %s: GET %q panicked: %v; history %s", i, op, path, o.PanicVal, hist(i))
			}
			if o.BaseKind == "404" || o.HandlerNil {
				return rig.Violf("live-route-404", "after step %d %s: GET %q (a witness of live %q) answered %s; live %v; history %s", i, op, path, p.Src, o.HandlerID, s.M.Live(), hist(i))
			}
			if sel := s.Parsed(o.Pattern); s.M.R[o.Pattern] == nil || sel == nil || !sel.Conforms(path, o.Params) {
				return rig.Violf("selected-not-live", "after step %d %s: GET %q selected %q with %v; live %v; history %s", i, op, path, o.Pattern, o.Params, s.M.Live(), hist(i))
			}
		}
		// (3) removed pairs are gone
		gone := make([]life.PM, 0, len(s.Gone))
		for pm := range s.Gone {
			gone = append(gone, pm)
		}
		sort.Slice(gone, func(a, b int) bool { return gone[a].P+gone[a].M < gone[b].P+gone[b].M })
		for _, pm := range gone {
			p := s.Parsed(pm.P)
			if p == nil {
				continue
			}
			path, _, ok := p.Witness(c.Variant)
			if !ok {
				continue
			}
			ms := []string{pm.M}
			if pm.M == "GET" {
				ms = append(ms, "HEAD")
			}
			for _, m := range ms {
				o := s.Get(m, path)
				if o.Panicked {
					return rig.Violf("panic", "after step %d %s: %s %q (removed route) panicked: %v; history %s", i, op, m, path, o.PanicVal, hist(i))
				}
				if o.BaseID == s.Gone[pm] {
					return rig.Violf("removed-still-served", "after step %d %s: %s %q still runs handler %s of removed (%q,%s); history %s", i, op, m, path, o.BaseID, pm.P, pm.M, hist(i))
				}
			}
		}
		// generated (possibly ambiguous) paths join the frame vector
		for _, path := range c.Paths {
			for _, m := range []string{"GET", "POST", "HEAD"} {
				o := s.Get(m, path)
				if o.Panicked {
					if !removedSomething {
						continue
					}
					return rig.Violf("panic", "after step %d %s: %s %q panicked: %v; history %s", i, op, m, path, o.PanicVal, hist(i))
				}
				cur = append(cur, obs{probe{m, path}, o.BaseKind, o.BaseID, o.Pattern, o.Params})
			}
		}
		// special paths never panic either
		for _, path := range []string{"", "*", "/"} {
			for _, m := range []string{"GET", "OPTIONS", "BOGUS"} {
				if o := s.Get(m, path); o.Panicked && removedSomething {
					return rig.Violf("panic", "after step %d %s: %s %q panicked: %v; history %s", i, op, m, path, o.PanicVal, hist(i))
				}
			}
		}
		prev = cur
	}
	st.Eval(c, nontriv, classes...)
	return nil
}

func kindOf(a pat.Atom) string {
	if a.IsLit() {
		return "literal"
	}
	return a.P.Kind.String()
}

var stats = rig.NewStats("C03",
	"rapid draws a pool of 3-14 witness-safe patterns (bursts of >=5 literal siblings, parameter siblings, routes not starting with '/') and a history of 2-30 Handle/HandleMany/Remove/Remove(methods, incl. HEAD, OPTIONS, '', unknown)/Clean/Prefix.Clean steps through Router, Prefix and Resource; after every step Routes() is compared with a table model, every live pattern's witness is probed with ten methods (route selection by kind priority, then method lookup), removed pairs are probed, removals are checked against the previous observation vector (frame condition) and nothing may panic. Non-trivial: some removal made a pattern vanish while a live pattern sharing its first atom stayed; distinct by hash of the case. Later additions to the generated domain: Pools and histories share the unusual-size structures and the opening template described for C01.",
	"witness-safe pools: every rule accepts simple values, the literal after a regexp parameter does not start with a byte of its class",
	"for Handle the model follows the router's accept/reject verdict (rejections are C17's subject)")

func TestProp(t *testing.T) { rig.RunProp(t, stats, gen, check) }

func FuzzProp(f *testing.F) { rig.FuzzProp(f, stats, gen, check) }
