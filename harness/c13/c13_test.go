// C13 — a Group dispatches to the first accepting router and rejections leave no trace.
package c13

import (
	"fmt"
	"mime"
	"net/http"
	"strings"
	"testing"

	"github.com/issue9/mux/v9"
	"github.com/issue9/mux/v9/types"
	"pgregory.net/rapid"

	"verif/harness/pat"
	"verif/harness/ref"
	"verif/harness/rig"
)

// MSpec is a matcher as data.
type MSpec struct {
	Kind  string   `json:"kind"` // nil hosts pathver headerver and or
	Args  []string `json:"args,omitempty"`
	Param string   `json:"param,omitempty"`
	Subs  []MSpec  `json:"subs,omitempty"`
	Func  bool     `json:"func,omitempty"` // and / or built with AndMatcherFunc / OrMatcherFunc
}

type Step struct {
	Kind   string   `json:"kind"` // new add remove use readd
	Name   string   `json:"name,omitempty"`
	M      MSpec    `json:"m"`
	Routes []string `json:"routes,omitempty"`
	MW     int      `json:"mw,omitempty"`
	// Recov > 0: the router gets WithStatusRecovery(Recov) of its own (Group.New option / NewRouter option)
	Recov int `json:"recov,omitempty"`
}

type Rq struct {
	Method string `json:"m"`
	Path   string `json:"path"`
	Host   string `json:"host"`
	Accept string `json:"accept"`
	// Panic: the handler that finally answers panics
	Panic bool `json:"panic,omitempty"`
	// Raw: the request target was written with a percent-escape (URL.RawPath is set); whatever a rejecting
	// matcher did to the URL, the escaped spelling is part of "the request path as it was"
	Raw bool `json:"raw,omitempty"`
}

// rawOf spells the last byte of a path as a percent-escape.
func rawOf(path string) string {
	if path == "" {
		return ""
	}
	return fmt.Sprintf("%s%%%02X", path[:len(path)-1], path[len(path)-1])
}

type Case struct {
	// GroupRecov: the group is made with WithStatusRecovery(590): its own not-found path and the routers made by
	// Group.New without a recovery option of their own answer 590 to a panic
	GroupRecov bool   `json:"group_recov,omitempty"`
	Steps      []Step `json:"steps"`
	Reqs       []Rq   `json:"reqs"`
}

var (
	routePool  = []string{"/x", "/y/{id}", "/v1/x", "/{any}", "/v2/y/{id}", "/", "/{ver:\\d+}/p/b", "/{o}/p/c"}
	domainSets = [][]string{{"a.com"}, {"{sub}.b.com"}, {"a.com", "{sub}.b.com"}, {"c.com", "a.com"}, {"{sub}.b.com", "{sub}.b.org"}, {"{ver}.b.com", "{ver}.b.org", "a.com"}, {"{v}.b.com", "{v}.b.org"}, {"{-ver}.b.com", "{-ver}.b.org", "{v:\\w+}.b.net"}}
	verSets    = [][]string{{"v1"}, {"v2"}, {"v1", "v2"}, {"v11", "v1"}, {"a/v1", "a/v2"}, {"v1/beta", "v1"}}
	names      = []string{"r1", "r2", "r3", "r4"}
)

var bigNames = []string{"r1", "r2", "r3", "r4", "r5", "r6", "r7", "r8", "r9", "r10", "r11", "r12", "r13", "r14"}

func genLeaf(t *rapid.T, k int) MSpec {
	switch rapid.IntRange(0, 3).Draw(t, "leaf") {
	case 0:
		return MSpec{Kind: "hosts", Args: rapid.SampledFrom(domainSets).Draw(t, "domains")}
	case 1:
		return MSpec{Kind: "pathver", Args: rapid.SampledFrom(verSets).Draw(t, "pvers"), Param: rapid.SampledFrom([]string{"", fmt.Sprintf("pv%d", k), "ver"}).Draw(t, "pparam")}
	case 2:
		return MSpec{Kind: "headerver", Args: rapid.SampledFrom(verSets).Draw(t, "hvers"), Param: rapid.SampledFrom([]string{"", fmt.Sprintf("hv%d", k), "ver"}).Draw(t, "hparam")}
	default:
		return MSpec{Kind: "pathver", Args: rapid.SampledFrom(verSets).Draw(t, "pvers2"), Param: fmt.Sprintf("pw%d", k)}
	}
}

func genMatcher(t *rapid.T, depth int) MSpec {
	if depth == 0 && rapid.IntRange(0, 9).Draw(t, "template") == 0 {
		// And(set n, Or(And(set n again, X), Y)): when X rejects, the inner And must give n its earlier value back
		name := rapid.SampledFrom([]string{"ver", "v"}).Draw(t, "tname")
		setter := func(label string) MSpec {
			if rapid.Bool().Draw(t, label) {
				return MSpec{Kind: "pathver", Args: rapid.SampledFrom(verSets).Draw(t, label+"V"), Param: name}
			}
			return MSpec{Kind: "headerver", Args: rapid.SampledFrom(verSets).Draw(t, label+"V"), Param: name}
		}
		return MSpec{Kind: "and", Subs: []MSpec{setter("s1"), {Kind: "or", Subs: []MSpec{
			{Kind: "and", Subs: []MSpec{setter("s2"), genLeaf(t, 7)}}, genLeaf(t, 8)}}}}
	}
	if depth == 0 && rapid.IntRange(0, 9).Draw(t, "template2") == 0 {
		// And(set n, Or(Hosts with a {n} domain, Y)): a Hosts that gives up after binding {n} must leave n as it was
		name := rapid.SampledFrom([]string{"ver", "v"}).Draw(t, "t2name")
		set := MSpec{Kind: "pathver", Args: rapid.SampledFrom(verSets).Draw(t, "t2V"), Param: name}
		if rapid.Bool().Draw(t, "t2h") {
			set.Kind = "headerver"
		}
		hosts := MSpec{Kind: "hosts", Args: rapid.SampledFrom(domainSets[5:]).Draw(t, "t2domains")}
		return MSpec{Kind: "and", Subs: []MSpec{set, {Kind: "or", Subs: []MSpec{hosts, genLeaf(t, 9)}}}}
	}
	k := rapid.IntRange(0, 9).Draw(t, "mkind")
	switch {
	case k == 0 && depth == 0: // a nil matcher only exists at the Add / New level
		return MSpec{Kind: "nil"}
	case k < 4 || depth >= 3:
		return genLeaf(t, depth*10)
	default:
		kind := "and"
		if k >= 8 {
			kind = "or"
		}
		m := MSpec{Kind: kind, Func: rapid.IntRange(0, 3).Draw(t, "funcForm") == 0}
		for i, n := 0, rapid.IntRange(2, 3).Draw(t, "nsubs"); i < n; i++ {
			if depth < 2 && rapid.IntRange(0, 3).Draw(t, "nest") == 0 {
				m.Subs = append(m.Subs, genMatcher(t, depth+1))
			} else {
				m.Subs = append(m.Subs, genLeaf(t, depth*10+i+1))
			}
		}
		return m
	}
}

func gen(t *rapid.T) Case {
	var c Case
	c.GroupRecov = rapid.Bool().Draw(t, "groupRecov")
	names := names
	nsteps := rapid.IntRange(1, rig.Up(8)).Draw(t, "nsteps")
	if rapid.IntRange(0, 9).Draw(t, "bigGroup") == 0 {
		// a group of a size beyond the usual: up to fourteen routers, mostly additions first
		names = bigNames
		nsteps = rapid.IntRange(10, 30).Draw(t, "bigSteps")
	}
	for i, n := 0, nsteps; i < n; i++ {
		var s Step
		switch k := rapid.IntRange(0, 9).Draw(t, "skind"); {
		case k < 6 || i == 0 || (len(names) > 4 && i < 9):
			s = Step{Kind: rapid.SampledFrom([]string{"new", "add"}).Draw(t, "how"), Name: rapid.SampledFrom(names).Draw(t, "name"), M: genMatcher(t, 0)}
			s.Routes = rapid.SliceOfNDistinct(rapid.SampledFrom(routePool), 1, 4, rapid.ID[string]).Draw(t, "routes")
			if rapid.IntRange(0, 2).Draw(t, "ownRecov") == 0 {
				s.Recov = 560 + rapid.IntRange(0, 9).Draw(t, "recovCode")
			}
		case k < 7:
			s = Step{Kind: "remove", Name: rapid.SampledFrom(names).Draw(t, "rmname")}
		case k < 8:
			// the same router object is offered again under another matcher: refused, and nothing may change
			s = Step{Kind: "readd", Name: rapid.SampledFrom(names).Draw(t, "rename"), M: genMatcher(t, 0)}
		default:
			s = Step{Kind: "use", MW: rapid.IntRange(0, 3).Draw(t, "mw")}
		}
		c.Steps = append(c.Steps, s)
	}
	for i, n := 0, rapid.IntRange(1, 8).Draw(t, "nreqs"); i < n; i++ {
		c.Reqs = append(c.Reqs, Rq{
			Method: rapid.SampledFrom([]string{"GET", "GET", "POST", "OPTIONS"}).Draw(t, "m"),
			Path:   rapid.SampledFrom([]string{"/v1/x", "/v2/y/7", "/x", "/v1/v1/x", "/y/7", "/v1/zz", "/v11/x", "/v1", "/v2/v1/x", "/", "/v1/", "/7/p/c", "/v1/7/p/c", "/v1/7/p/b", "/a/v2/x", "/a/v1/y/7", "/v1/beta/x", "/a/x"}).Draw(t, "path"),
			Host: rapid.SampledFrom([]string{"a.com", "q.b.com", "c.com", "A.COM:80", "d.com", "", "q.b.net", "q.b.org", "x.b.com.cn",
				"a.com", "q.b.com:8080", "a.com:", "a.com:80a", "q.b.com:http", "a.com:+80", "q.b.org: 80", "a.com:\uff18\uff10", "a.com:80:90", "Q.B.COM"}).Draw(t, "host"), // incl. text behind the colon that is no port
			Accept: rapid.SampledFrom([]string{"a/b; version=v1", "", "a/b; version=v9", "a/b; version=v2", "junk;;"}).Draw(t, "accept"),
			Panic:  rapid.IntRange(0, 5).Draw(t, "panic") == 0,
			Raw:    rapid.IntRange(0, 2).Draw(t, "raw") == 0,
		})
	}
	return c
}

func build(m MSpec) mux.Matcher {
	switch m.Kind {
	case "nil":
		return nil
	case "hosts":
		return mux.NewHosts(false, m.Args...)
	case "pathver":
		return mux.NewPathVersion(m.Param, append([]string{}, m.Args...)...)
	case "headerver":
		return mux.NewHeaderVersion(m.Param, "", func(error) {}, m.Args...)
	}
	var subs []mux.Matcher
	for _, s := range m.Subs {
		subs = append(subs, build(s))
	}
	if m.Func {
		// the same combination spelt with the *Func constructors over the members' Match methods
		var fs []func(*http.Request, *types.Context) bool
		for _, sub := range subs {
			fs = append(fs, sub.Match)
		}
		if m.Kind == "and" {
			return mux.AndMatcherFunc(fs...)
		}
		return mux.OrMatcherFunc(fs...)
	}
	if m.Kind == "and" {
		return mux.AndMatcher(subs...)
	}
	return mux.OrMatcher(subs...)
}

type state struct {
	path   string
	params map[string]string
}

func (s state) with(k, v string) state {
	n := state{path: s.path, params: map[string]string{}}
	for a, b := range s.params {
		n.params[a] = b
	}
	if k != "" {
		n.params[k] = v
	}
	return n
}

func normHost(h string) string {
	if i := strings.LastIndexByte(h, ':'); i >= 0 {
		ok := true
		for _, c := range []byte(h[i+1:]) {
			if c < '0' || c > '9' {
				ok = false
			}
		}
		if ok {
			h = h[:i]
		}
	}
	return strings.ToLower(h)
}

// eval is the reference matcher evaluator: pure, composites per their
// documented meaning, a rejection is the identity.
func eval(m MSpec, q Rq, s state, stats *evalStats) (bool, state) {
	switch m.Kind {
	case "nil":
		return true, s
	case "hosts":
		var ps []*pat.Pattern
		for _, d := range m.Args {
			ps = append(ps, pat.MustParse(d, nil))
		}
		h := normHost(q.Host)
		if h == "" || h == "*" {
			return false, s
		}
		adm, _ := (&ref.Resolver{Routes: ps}).Admissible(h)
		if len(adm) == 0 {
			return false, s
		}
		n := s
		for k, v := range adm[0].Params {
			n = n.with(k, v)
		}
		return true, n
	case "pathver":
		for _, v := range m.Args {
			if strings.HasPrefix(s.path, "/"+v+"/") {
				n := s.with(m.Param, "/"+v)
				n.path = s.path[len("/"+v):]
				stats.mutated = true
				return true, n
			}
		}
		return false, s
	case "headerver":
		if q.Accept == "" {
			return false, s
		}
		_, ps, err := mime.ParseMediaType(q.Accept)
		if err != nil {
			return false, s
		}
		for _, v := range m.Args {
			if ps["version"] == v {
				return true, s.with(m.Param, v)
			}
		}
		return false, s
	case "and":
		cur := s
		before := stats.mutated
		for _, sub := range m.Subs {
			ok, n := eval(sub, q, cur, stats)
			if !ok {
				if len(cur.params) != len(s.params) || cur.path != s.path {
					stats.andRejectedAfterAccept = true
				}
				stats.mutated = before
				return false, s
			}
			cur = n
		}
		return true, cur
	default: // or
		for _, sub := range m.Subs {
			if ok, n := eval(sub, q, s, stats); ok {
				return true, n
			}
		}
		return false, s
	}
}

type evalStats struct {
	mutated                bool
	andRejectedAfterAccept bool
}

type member struct {
	name string
	spec MSpec
	r    *rig.Router
}

func check(c Case, st *rig.Stats) error {
	env := rig.NewEnv()
	var gopts []mux.Option
	if c.GroupRecov {
		gopts = append(gopts, mux.WithStatusRecovery(590))
	}
	g := env.NewGroup(gopts...)
	var members []member
	var guse []string
	nontriv := false
	var classes []string
	for si, s := range c.Steps {
		when := fmt.Sprintf("after step %d %s %s (steps %+v)", si, s.Kind, s.Name, c.Steps[:si+1])
		switch s.Kind {
		case "new", "add":
			exists := false
			for _, m := range members {
				if m.name == s.Name {
					exists = true
				}
			}
			var r *rig.Router
			v, panicked := rig.Try(func() {
				var own []mux.Option
				if s.Recov > 0 {
					own = append(own, mux.WithStatusRecovery(s.Recov))
				}
				if s.Kind == "new" {
					r = &rig.Router{Router: g.New(s.Name, build(s.M), own...), Env: env, NotFound: g.NotFound}
				} else {
					r = env.NewRouter(s.Name, rig.Opts{Extra: own})
					g.Add(build(s.M), r.Router)
				}
			})
			if exists != panicked {
				return rig.Violf("router-names", "%s: a router named %q existed=%v, but the call panicked=%v (%v)", when, s.Name, exists, panicked, v)
			}
			if panicked {
				classes = append(classes, "duplicate-name-rejected")
				break
			}
			for _, p := range s.Routes {
				rig.Try(func() { r.Handle(p, env.NewH(), nil, "GET") })
			}
			members = append(members, member{s.Name, s.M, r})
		case "readd":
			for _, m := range members {
				if m.name != s.Name {
					continue
				}
				if _, panicked := rig.Try(func() { g.Add(build(s.M), m.r.Router) }); !panicked {
					return rig.Violf("router-names", "%s: adding the router %q a second time was accepted", when, s.Name)
				}
				classes = append(classes, "same-router-offered-again")
			}
		case "remove":
			g.Remove(s.Name)
			for i, m := range members {
				if m.name == s.Name {
					members = append(members[:i:i], members[i+1:]...)
					classes = append(classes, "router-removed")
					break
				}
			}
		case "use":
			g.Use(env.NewMW(fmt.Sprintf("m%d", s.MW)))
			guse = append(guse, fmt.Sprintf("m%d", s.MW))
		}
		if got := len(g.Routers()); got != len(members) {
			return rig.Violf("routers-list", "%s: group lists %d routers, model %d", when, got, len(members))
		}
		groutes := g.Routes()
		if len(groutes) != len(members) {
			return rig.Violf("routers-list", "%s: Group.Routes() has %d entries, model %d routers", when, len(groutes), len(members))
		}
		for i, m := range members {
			if got := g.Routers()[i]; got != m.r.Router {
				return rig.Violf("routers-list", "%s: Routers()[%d] is %q, model %q (order of addition)", when, i, got.Name(), m.name)
			}
			if got := g.Router(m.name); got != m.r.Router {
				return rig.Violf("routers-list", "%s: Router(%q) does not return the router added under that name", when, m.name)
			}
			if fmt.Sprint(groutes[m.name]) != fmt.Sprint(m.r.Routes()) {
				return rig.Violf("routers-list", "%s: Group.Routes()[%q]=%v, the router's own Routes()=%v", when, m.name, groutes[m.name], m.r.Routes())
			}
		}
		for _, n := range append([]string{"r0", "nope"}, bigNames...) {
			known := false
			for _, m := range members {
				known = known || m.name == n
			}
			if !known && g.Router(n) != nil {
				return rig.Violf("routers-list", "%s: Router(%q) returns a router although none of that name is in the group", when, n)
			}
		}
		for qi, q := range c.Reqs {
			hdr := map[string][]string{}
			if q.Accept != "" {
				hdr["Accept"] = []string{q.Accept}
			}
			where := fmt.Sprintf("%s: request %d %+v", when, qi, q)
			// reference: first accepting member
			var win *member
			var ws state
			rejectedBefore, compositeRejected := 0, false
			es := &evalStats{}
			for i := range members {
				ok, ns := eval(members[i].spec, q, state{path: q.Path, params: map[string]string{}}, es)
				if ok {
					win, ws = &members[i], ns
					break
				}
				rejectedBefore++
				if members[i].spec.Kind == "and" || members[i].spec.Kind == "or" {
					compositeRejected = true
				}
			}
			if len(members) >= 2 && rejectedBefore >= 1 && compositeRejected {
				nontriv = true
			}
			if es.andRejectedAfterAccept {
				classes = append(classes, "and-rejected-after-an-accepting-member")
			}
			panicAt := ""
			if q.Panic {
				panicAt = "base"
				classes = append(classes, "answering-handler-panics")
			}
			raw := ""
			if q.Raw {
				raw = rawOf(q.Path)
			}
			o := rig.Serve(g, rig.Req{Method: q.Method, Path: q.Path, RawPath: raw, Host: q.Host, Header: hdr, PanicAt: panicAt, PanicWith: "c13-boom"})
			if o.Panicked && !q.Panic {
				return rig.Violf("panic", "%s panicked: %v", where, o.PanicVal)
			}
			if win == nil && q.Panic {
				// the group's own not-found path: contained iff the group has a recovery option (C16 looks closer)
				if o.Panicked == c.GroupRecov || (c.GroupRecov && o.EffStatus() != 590) {
					return rig.Violf("group-not-found-panic", "%s: no matcher accepts and the not-found handler panics; group recovery configured=%v, panic escaped=%v, status %d", where, c.GroupRecov, o.Panicked, o.EffStatus())
				}
				continue
			}
			if win == nil {
				classes = append(classes, "no-router-accepts")
				var want []string
				for i := len(guse) - 1; i >= 0; i-- {
					want = append(want, guse[i])
				}
				if o.BaseID != g.NotFound.ID || fmt.Sprint(o.Trace) != fmt.Sprint(want) {
					return rig.Violf("group-not-found", "%s: no matcher accepts, but %s(%s) ran with middlewares %v (want the group's not-found handler with %v); router %q", where, o.BaseID, o.BaseKind, o.Trace, want, o.RouterName)
				}
				if len(o.Params) != 0 {
					return rig.Violf("group-not-found-params", "%s: not-found handler saw params %v", where, o.Params)
				}
				if o.URLPath != q.Path || o.URLRawPath != raw {
					return rig.Violf("rejections-left-a-trace", "%s: every matcher rejected but the not-found handler saw URL.Path %q, RawPath %q (sent: %q, %q)", where, o.URLPath, o.URLRawPath, q.Path, raw)
				}
				continue
			}
			classes = append(classes, fmt.Sprintf("accepted-by-router-%d-in-order", rejectedBefore+1))
			// that router alone, serving the request the matcher produced
			alone := rig.Serve(win.r, rig.Req{Method: q.Method, Path: ws.path, Host: q.Host, Header: hdr, PanicAt: panicAt, PanicWith: "c13-boom"})
			if o.Panicked != alone.Panicked {
				return rig.Violf("not-as-router-alone", "%s: the handler panics; through the group the panic escaped=%v (status %d), from router %q alone escaped=%v (status %d)", where, o.Panicked, o.EffStatus(), win.name, alone.Panicked, alone.EffStatus())
			}
			wantParams := map[string]string{}
			// a route parameter with the name of a matcher parameter is written later and wins
			for k, v := range ws.params {
				wantParams[k] = v
			}
			for k, v := range alone.Params {
				wantParams[k] = v
			}
			switch {
			case o.RouterName != win.name:
				return rig.Violf("wrong-router", "%s: served by router %q, the first accepting router is %q (matcher %+v)", where, o.RouterName, win.name, win.spec)
			case ws.path == q.Path && o.URLRawPath != raw:
				return rig.Violf("rejections-left-a-trace", "%s: the accepting matcher of router %q does not touch the path, yet the router saw RawPath %q (sent %q): an earlier, rejecting matcher left it behind", where, win.name, o.URLRawPath, raw)
			case o.URLPath != ws.path:
				return rig.Violf("wrong-path", "%s: router %q saw URL.Path %q, its matcher produces %q", where, win.name, o.URLPath, ws.path)
			case o.BaseID != alone.BaseID || o.Pattern != alone.Pattern || o.EffStatus() != alone.EffStatus():
				return rig.Violf("not-as-router-alone", "%s: group gave %s on %q status %d; router %q alone with path %q gives %s on %q status %d", where, o.BaseID, o.Pattern, o.EffStatus(), win.name, ws.path, alone.BaseID, alone.Pattern, alone.EffStatus())
			case !rig.EqualParams(o.Params, wantParams):
				return rig.Violf("wrong-params", "%s: params %v, want route params %v plus matcher params %v", where, o.Params, alone.Params, ws.params)
			}
		}
	}
	st.Eval(c, nontriv, classes...)
	return nil
}

var stats = rig.NewStats("C13",
	"(version lists include multi-segment versions sharing their first segment; since round 5: the group optionally has WithStatusRecovery(590), a third of the routers a WithStatusRecovery of their own, and one request in six makes the answering handler panic: through the group the outcome - escaped or not, status - must be the one the accepting router alone gives, and the group's own not-found path is contained iff the group has the option) rapid draws a history of 1-8 Group steps (New / Add of a router with a matcher built from nil, Hosts, path-version, header-version, And, Or with nesting depth <= 2 and a table drawn from six routes; Remove(name); Use; duplicate names) and 1-8 requests (paths with none / one / repeated version segments, hosts literal / wildcard / with port / unknown, Accept with matching / other / no version). After every step every request is evaluated by a pure reference matcher evaluator (And threads the request through its members and is the identity when any member rejects; Or takes the first accepting member on the original request) to pick the first accepting router; the group's answer must equal that router alone serving the produced path, plus the matcher's parameters, with URL.Path seen by CallFunc equal to the produced path; when nobody accepts the group's not-found handler runs with the Group.Use middlewares, no parameters and the original path. Names stay unique; removed routers never answer. Non-trivial: >=2 routers and at least one composite matcher rejected before the request was accepted or fell through; distinct by hash of the case. Later additions to the generated domain: And / Or are also built with AndMatcherFunc / OrMatcherFunc; Routers(), Router(name) and Group.Routes() are checked against the model after every step; one case in ten is a group of up to fourteen routers with 10-30 steps. Hosts include non-port text behind the colon.",
	"matcher parameter names are disjoint from route parameter names",
	"Hosts members use the C02 reference resolver on the lower-cased host without a valid port")

func TestProp(t *testing.T) { rig.RunProp(t, stats, gen, check) }

func FuzzProp(f *testing.F) { rig.FuzzProp(f, stats, gen, check) }
