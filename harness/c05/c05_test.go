// C05 — no request and no pattern string can crash the router.
package c05

import (
	"fmt"
	"io"
	"log"
	"net/http"
	"net/url"
	"runtime"
	"strings"
	"testing"
	"unicode/utf8"

	"github.com/issue9/mux/v9"
	"github.com/issue9/mux/v9/types"
	"pgregory.net/rapid"

	"verif/harness/life"
	"verif/harness/pat"
	"verif/harness/ref"
	"verif/harness/rig"
)

type Req struct {
	Method string `json:"m"`
	Path   string `json:"path"`
	Host   string `json:"host"`
	Accept string `json:"accept"`
	Origin string `json:"origin,omitempty"`
	ACRM   string `json:"acrm,omitempty"` // Access-Control-Request-Method
	ACRH   string `json:"acrh,omitempty"` // Access-Control-Request-Headers
}

type PatProbe struct {
	Pattern string            `json:"pattern"`
	Params  map[string]string `json:"params"`
}

type HostOp struct {
	Del    bool   `json:"del"`
	Domain string `json:"domain"`
}

type Case struct {
	Icpt     string     `json:"icpt"`
	CORS     string     `json:"cors"` // none allowed list
	Trace    bool       `json:"trace"`
	Pool     []string   `json:"pool"`
	Ops      []life.Op  `json:"ops"`
	HostOps  []HostOp   `json:"host_ops"`
	Versions []string   `json:"versions"`
	Reqs     []Req      `json:"reqs"`
	Pats     []PatProbe `json:"pats"`
}

var (
	hostileMethods = []string{"", "GET", "get", "G ET", "\x00", "OPTIONS", "TRACE", "HEAD", "CONNECT", "PRI", strings.Repeat("M", 5000), "*"}
	hostilePaths   = []string{"", "*", "/", "//", "/%", "/{x}", "/a\x00b", "\xff\xfe", "/\xc3\x28", strings.Repeat("/a", 35000), "a", "**", " ", "/*", "*/"}
	hostileHosts   = []string{"", "a.com", "A.COM:80", "[::1]:80", "a:b:c", "[", "]:", ":", "a.com:", "a.com:x", ":80", "[]", "[a.com]", "x.a.com", "7.b.com:8080", "\xff", "[", "]", "[[::1]]", "a.com:65536000000000000000",
		// letters whose lower-case form has another length, in front of a port or inside brackets
		"\u212a.com:80", "x.\u0130.a.com:8080", "[\u212a]:80", "\u023a.a.com:1", "A\u212a.COM", "[\u0130]", "\u1e9e.b.com:80", "\xff.a.com:80", "\u212a\u212a\u212a.c.com:"}
	hostileAccept  = []string{"", "text/html", "application/json; version=v1", ";", "a/b; version", "\xff", "a/b;version=\"v2\"", "a/b; VERSION=v1", strings.Repeat("a/b;", 3000), "a/b; version=v1; version=v2",
		// quoting at its edges: a lone quote as a value, a quoted semicolon, an empty quoted value, a dangling escape
		"a/b; version=\"", "a/b; version=\";\"", "a/b; charset=\"; version=v1", "a/b; version=\"\"", "a/b; version=\"\\", "\"", "a/b; =", "a/b; version=;", "/; version=v1"}
	domains     = []string{"a.com", "{sub}.a.com", `{sub:\d+}.b.com`, "b.com", "c.com", "d.com", "e.com", "f.com", "{-s}.c.com", "A.com", "{sub:[}.x"}
	patAlphabet = []string{"{", "}", ":", "-", "/", "a", "b", `\d+`, "[", "]", "(", ")", "*", ".", "x", "{x}", "{y:\\d+}", "{-z}", "{x:", "}{"}
	faults      = []string{"{}", "{:r}", "}{", "{x}{y}", "{x:[}", "{a}/{a}", "{-}", "{x", "{x:(}", "}", "{", "{{x}}", "{x:}", "{:}", "{-:}", strings.Repeat("s", 33000)}
)

func hostile(t *rapid.T, label string, pool []string) string {
	if rapid.IntRange(0, 9).Draw(t, label+"Mode") < 7 {
		return rapid.SampledFrom(pool).Draw(t, label)
	}
	if rapid.Bool().Draw(t, label+"Bytes") {
		return string(rapid.SliceOfN(rapid.Byte(), 0, 12).Draw(t, label+"Raw"))
	}
	return rapid.String().Draw(t, label+"Str")
}

func gen(t *rapid.T) Case {
	cfg := pat.GenCfg(t, true)
	c := Case{Icpt: cfg.IcptName, Trace: rapid.IntRange(0, 3).Draw(t, "trace") == 0, CORS: rapid.SampledFrom([]string{"none", "none", "allowed", "list", "biglist"}).Draw(t, "cors")}
	c.Pool = pat.GenPool(t, cfg, rapid.IntRange(2, rig.Up(10)).Draw(t, "npool"))
	c.Ops = life.GenOps(t, cfg, c.Pool, rapid.IntRange(0, rig.Up(15)).Draw(t, "nops"),
		life.GenOpts{Facades: true, Hostile: true, NewMethods: false, Trace: c.Trace})
	for i, n := 0, rapid.IntRange(0, 8).Draw(t, "nhostops"); i < n; i++ {
		c.HostOps = append(c.HostOps, HostOp{Del: rapid.IntRange(0, 3).Draw(t, "hdel") == 0, Domain: rapid.SampledFrom(domains).Draw(t, "domain")})
	}
	c.Versions = rapid.SliceOfN(rapid.SampledFrom([]string{"v1", "v11", "/v2", "v2/", "1.0", "a/b", "/"}), 1, 3).Draw(t, "versions")
	var parsed []*pat.Pattern
	for _, p := range c.Pool {
		parsed = append(parsed, pat.MustParse(p, cfg.Icpt))
	}
	for i, n := 0, rapid.IntRange(1, 8).Draw(t, "nreqs"); i < n; i++ {
		r := Req{Method: hostile(t, "method", hostileMethods), Host: hostile(t, "host", hostileHosts), Accept: hostile(t, "accept", hostileAccept)}
		if rapid.IntRange(0, 2).Draw(t, "corsHeaders") == 0 {
			r.Origin = hostile(t, "origin", []string{"https://a.example", "null", "*", "\xff", "https://t05.example.com", "https://t050.example.com", "https://zzz.example", "a", "https://t", strings.Repeat("https://long.example/", 40)})
			r.ACRM = hostile(t, "acrm", []string{"GET", "DELETE", "BOGUS", " "})
			r.ACRH = hostile(t, "acrh", []string{"Content-Type", "x-custom, ,", ",", "\xff"})
			if rapid.Bool().Draw(t, "preflight") {
				r.Method = "OPTIONS"
			}
		}
		if rapid.IntRange(0, 1).Draw(t, "pathFromPool") == 0 {
			r.Path = pat.GenPath(t, parsed)
			if rapid.IntRange(0, 3).Draw(t, "sane") > 0 {
				r.Method = rapid.SampledFrom(life.ProbeMethods).Draw(t, "saneMethod")
				r.Host = "a.com"
			}
			if rapid.Bool().Draw(t, "versioned") {
				r.Path = "/" + strings.Trim(c.Versions[0], "/") + r.Path
			}
		} else {
			r.Path = hostile(t, "path", hostilePaths)
		}
		c.Reqs = append(c.Reqs, r)
	}
	for i, n := 0, rapid.IntRange(1, 5).Draw(t, "npats"); i < n; i++ {
		var p string
		switch rapid.IntRange(0, 4).Draw(t, "patMode") {
		case 0:
			p = rapid.String().Draw(t, "patAny")
		case 1:
			p = strings.Join(rapid.SliceOfN(rapid.SampledFrom(patAlphabet), 0, 8).Draw(t, "patSyms"), "")
		case 4:
			// a well-formed token whose rule is regexp-metacharacter soup: it may compile only once it is wrapped
			rule := strings.Join(rapid.SliceOfN(rapid.SampledFrom([]string{"a", "b", "|", "(", ")", `\d`, "+", "*", "?", "[", "]", "^", "$", ".", "(?:", "(?P<n>"}), 1, 6).Draw(t, "ruleSoup"), "")
			p = rapid.SampledFrom([]string{"/", "/p/", ""}).Draw(t, "soupLead") + "{q:" + rule + "}" + rapid.SampledFrom([]string{"", "/x", "."}).Draw(t, "soupTail")
		case 2:
			base := rapid.SampledFrom(c.Pool).Draw(t, "patBase")
			cut := rapid.IntRange(0, len(base)).Draw(t, "patCut")
			p = base[:cut] + rapid.SampledFrom(faults).Draw(t, "patFault") + base[cut:]
		default:
			p = rapid.SampledFrom(c.Pool).Draw(t, "patValid")
		}
		ps := map[string]string{}
		for j, m := 0, rapid.IntRange(0, 3).Draw(t, "nparams"); j < m; j++ {
			ps[rapid.SampledFrom([]string{"x", "y", "id", "", "-x", "z", "x2", "idx", "n"}).Draw(t, "pk")] = hostile(t, "pv", []string{"", "1", "abc", "a/b", "{x}", "\xff"})
		}
		c.Pats = append(c.Pats, PatProbe{Pattern: p, Params: ps})
	}
	return c
}

func isRuntime(v any) bool { _, ok := v.(runtime.Error); return ok }

func isError(v any) bool { _, ok := v.(error); return ok }

// never wraps a call that must not panic at all.
func never(what string, f func()) error {
	if v, p := rig.Try(f); p {
		return rig.Violf("panic:"+strings.SplitN(what, " ", 2)[0], "%s panicked: %v", what, v)
	}
	return nil
}

func short(s string) string {
	if len(s) > 60 {
		return fmt.Sprintf("%q…(%d bytes)", s[:60], len(s))
	}
	return fmt.Sprintf("%q", s)
}

func check(c Case, st *rig.Stats) error {
	env := rig.NewEnv()
	var corsOpt []mux.Option
	switch c.CORS {
	case "allowed":
		corsOpt = append(corsOpt, mux.WithAllowedCORS(60))
	case "list":
		corsOpt = append(corsOpt, mux.WithCORS([]string{"https://a.example"}, []string{"Content-Type"}, []string{"X-E"}, 0, true))
	case "biglist":
		var origins []string
		for i := 0; i < 36; i += 1 + i%3 {
			origins = append(origins, fmt.Sprintf("https://t%02d.example.com", i))
		}
		corsOpt = append(corsOpt, mux.WithCORS(origins, []string{"Content-Type", "X-A", "X-B", "X-C", "X-D", "X-E", "X-F", "X-G", "X-H", "X-I"}, nil, 60, true))
	}
	s := life.NewSys(env, c.Icpt, rig.Opts{Trace: c.Trace, Extra: corsOpt})
	nontriv := false
	var classes []string
	for i, op := range c.Ops {
		res := s.Apply(op)
		if res.Panicked {
			if res.Removal {
				return rig.Violf("panic:remove", "step %d %s panicked: %v", i, op, res.PanicVal)
			}
			if !isError(res.PanicVal) || isRuntime(res.PanicVal) {
				return rig.Violf("handle-runtime-fault", "step %d %s panicked with %T %v, not an error value", i, op, res.PanicVal, res.PanicVal)
			}
		}
	}
	// matchers
	hosts := mux.NewHosts(false)
	for _, ho := range c.HostOps {
		if ho.Del {
			if err := never("Hosts.Delete "+ho.Domain, func() { hosts.Delete(ho.Domain) }); err != nil {
				return err
			}
			continue
		}
		if v, p := rig.Try(func() { hosts.Add(ho.Domain) }); p && (!isError(v) || isRuntime(v)) {
			return rig.Violf("hosts-add-runtime-fault", "Hosts.Add(%q) panicked with %T %v", ho.Domain, v, v)
		}
	}
	pv := mux.NewPathVersion("ver", append([]string{}, c.Versions...)...)
	hv := mux.NewHeaderVersion("hver", "", func(error) {}, c.Versions...)
	grp := env.NewGroup()
	sub := func(name string, m mux.Matcher) {
		r := grp.New(name, m)
		for _, p := range c.Pool {
			rig.Try(func() { r.Handle(p, env.NewH(), nil, "GET", "POST") })
		}
	}
	sub("hosts", hosts)
	sub("and", mux.AndMatcher(pv, hosts))
	sub("or", mux.OrMatcher(hv, mux.AndMatcher(hosts, pv)))
	sub("hv", hv)
	sub("pv", pv)
	// no error sink given: the documented default (the standard logger, silenced in this process) takes the parse errors
	sub("hvdefaultlog", mux.NewHeaderVersion("hv2", "api", nil, c.Versions...))
	grp.Add(nil, s.R.Router)

	// every pool pattern's own witness (live or not) must be servable without a fault after the history
	for _, p := range c.Pool {
		if pp := s.Parsed(p); pp != nil {
			if w, _, ok := pp.Witness(0); ok {
				for _, m := range []string{"GET", "OPTIONS", "BOGUS"} {
					if o := s.Get(m, w); o.Panicked {
						return rig.Violf("panic:Router.ServeHTTP", "%s %s (witness of pool pattern %q) panicked after the history: %v; handler handed over: %q nil=%v; live %v", m, short(w), p, o.PanicVal, o.HandlerID, o.HandlerNil, s.M.Live())
					}
				}
			}
		}
	}
	for _, q := range c.Reqs {
		hdr := map[string][]string{}
		if q.Accept != "" {
			hdr["Accept"] = []string{q.Accept}
		}
		if q.Origin != "" {
			hdr["Origin"] = []string{q.Origin}
		}
		if q.ACRM != "" {
			hdr["Access-Control-Request-Method"] = []string{q.ACRM}
		}
		if q.ACRH != "" {
			hdr["Access-Control-Request-Headers"] = []string{q.ACRH}
		}
		hostileReq := q.Path == "" || q.Path == "*" || !utf8.ValidString(q.Path) || len(q.Path) > 60000 || !ref.IsKnownMethod(q.Method)
		if hostileReq {
			nontriv = true
		}
		for _, target := range []struct {
			name string
			h    http.Handler
		}{{"Router.ServeHTTP", s.R}, {"Group.ServeHTTP", grp}} {
			o := rig.Serve(target.h, rig.Req{Method: q.Method, Path: q.Path, Host: q.Host, Header: hdr})
			if o.Panicked {
				return rig.Violf("panic:"+target.name, "%s %s %s (Host %s, Accept %s) panicked: %v; handler handed over: %q nil=%v; live %v",
					target.name, short(q.Method), short(q.Path), short(q.Host), short(q.Accept), o.PanicVal, o.HandlerID, o.HandlerNil, s.M.Live())
			}
			if o.Called != 1 {
				return rig.Violf("call-count", "%s %s %s: CallFunc ran %d times", target.name, short(q.Method), short(q.Path), o.Called)
			}
			classes = append(classes, "answered-by-"+o.BaseKind)
		}
		for _, m := range []struct {
			name string
			m    mux.Matcher
		}{{"Hosts.Match", hosts}, {"PathVersion.Match", pv}, {"HeaderVersion.Match", hv}} {
			r := &http.Request{Method: q.Method, URL: &url.URL{Path: q.Path}, Host: q.Host, Header: http.Header{}}
			if q.Accept != "" {
				r.Header.Set("Accept", q.Accept)
			}
			ctx := types.NewContext()
			if err := never(fmt.Sprintf("%s path=%s host=%s accept=%s", m.name, short(q.Path), short(q.Host), short(q.Accept)), func() { m.m.Match(r, ctx) }); err != nil {
				return err
			}
			ctx.Destroy()
		}
	}

	for _, pp := range c.Pats {
		p := pp.Pattern
		if strings.ContainsAny(p, "{}") {
			nontriv = true
		}
		var syn error
		if err := never("CheckSyntax "+short(p), func() { syn = mux.CheckSyntax(p) }); err != nil {
			return err
		}
		if err := never("mux.URL "+short(p), func() { mux.URL(p, pp.Params) }); err != nil {
			return err
		}
		for _, strict := range []bool{false, true} {
			if err := never(fmt.Sprintf("Router.URL strict=%v %s %v", strict, short(p), pp.Params), func() { s.R.URL(strict, p, pp.Params) }); err != nil {
				return err
			}
			if err := never(fmt.Sprintf("Prefix.URL strict=%v %s", strict, short(p)), func() { s.R.Prefix("/p").URL(strict, p, pp.Params) }); err != nil {
				return err
			}
		}
		// a fresh router without interceptors and with an empty table agrees with CheckSyntax
		fresh := rig.NewEnv().NewRouter("fresh", rig.Opts{})
		v, panicked := rig.Try(func() { fresh.Handle(p, env.NewH(), nil, "GET") })
		if panicked && (!isError(v) || isRuntime(v)) {
			return rig.Violf("handle-runtime-fault", "fresh router: Handle(%s) panicked with %T %v, not an error value", short(p), v, v)
		}
		if panicked != (syn != nil) {
			return rig.Violf("handle-vs-checksyntax", "fresh router without interceptors: Handle(%s) panicked=%v (%v) but CheckSyntax says %v", short(p), panicked, v, syn)
		}
		if panicked {
			classes = append(classes, "pattern-rejected")
		} else {
			classes = append(classes, "pattern-accepted")
			if err := never("Router.URL strict on just-registered "+short(p), func() { fresh.URL(true, p, pp.Params) }); err != nil {
				return err
			}
			for _, path := range []string{p, "/", "", "*", "/a/b", "/a", "/b", "/ab", "/p/a", "/p/b", "/1", "a", "b", "/a/x", "/b.", "/p/1/x"} {
				if o := rig.Serve(fresh, rig.Req{Method: "GET", Path: path}); o.Panicked {
					return rig.Violf("panic:serve-after-handle", "fresh router with route %s: GET %s panicked: %v", short(p), short(path), o.PanicVal)
				}
			}
			if err := never("Routes", func() { fresh.Routes() }); err != nil {
				return err
			}
			if err := never("Remove "+short(p), func() { fresh.Remove(p) }); err != nil {
				return err
			}
		}
		// the populated router, with interceptors
		v, panicked = rig.Try(func() { s.R.Handle(p, env.NewH(), nil, "PATCH") })
		if panicked && (!isError(v) || isRuntime(v)) {
			return rig.Violf("handle-runtime-fault", "populated router: Handle(%s) panicked with %T %v, not an error value; live %v", short(p), v, v, s.M.Live())
		}
		if !panicked {
			if o := rig.Serve(s.R, rig.Req{Method: "PATCH", Path: p}); o.Panicked {
				return rig.Violf("panic:serve-after-handle", "populated router after Handle(%s): PATCH panicked: %v", short(p), o.PanicVal)
			}
			if err := never("Remove "+short(p), func() { s.R.Remove(p, "PATCH") }); err != nil {
				return err
			}
		}
	}
	st.Eval(c, nontriv, classes...)
	return nil
}

var stats = rig.NewStats("C05",
	"rapid draws a route table history (Router/Prefix/Resource, hostile Remove arguments), a Hosts add/delete history, a version list, 1-8 requests whose method, path, Host and Accept are hostile constants ('' '*' 70000-byte and non-UTF-8 paths, malformed host:port forms, junk media types), arbitrary bytes or paths derived from the table, and 1-5 pattern strings (arbitrary, brace/colon/regexp-meta soup, a valid pattern with one injected fault, valid) with params maps. Requests go through Router.ServeHTTP, Group.ServeHTTP (Hosts / And / Or / header-version / path-version matchers in front of the populated router), Hosts.Match and both version matchers; patterns through CheckSyntax, mux.URL, Router.URL and Prefix.URL (strict and not), Handle on a fresh interceptor-free router (must panic iff CheckSyntax fails) and on the populated one. Oracle: nothing panics except Handle / Hosts.Add with an error value that is not a runtime.Error. Non-trivial: a request with path '' or '*', non-UTF-8 or over-long path or a method outside the nine, or a pattern containing a brace; distinct by hash of the case. Later additions to the generated domain: The router also gets a CORS list of a dozen origins and ten headers, Origin values that sort before / behind / between the listed ones, and a header-version matcher that uses the default error log.",
	"user handlers never panic in this check, so every recovered value is the library's")

func init() { log.SetOutput(io.Discard) }

func TestProp(t *testing.T) { rig.RunProp(t, stats, gen, check) }

func FuzzProp(f *testing.F) { rig.FuzzProp(f, stats, gen, check) }
