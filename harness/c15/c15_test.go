// C15 — version matchers accept exactly their versions and rewrite only on success.
package c15

import (
	"fmt"
	"mime"
	"net/http"
	"net/url"
	"strings"
	"testing"

	"github.com/issue9/mux/v9"
	"github.com/issue9/mux/v9/types"
	"pgregory.net/rapid"

	"verif/harness/rig"
)

type Case struct {
	Versions []string `json:"versions"`
	Param    string   `json:"param"`
	Key      string   `json:"key"`
	Paths    []string `json:"paths"`
	Accepts  []string `json:"accepts"`
	// HVersions: the header matcher's list when it differs from Versions: the same names plus the empty
	// version (a header without the parameter), which the path matcher refuses
	HVersions []string `json:"hversions,omitempty"`
	// Sib: a second pair of matchers in the same process, with another version list, Accept key and parameter
	// name; it is asked about every path / header just before the subject is, and judged the same way
	Sib *Case `json:"sib,omitempty"`
}

var (
	names   = []string{"v1", "v11", "v2", "1.0", "a/b", "a", "V1", "v1.1"}
	tails   = []string{"", "/", "/x", "/x/y", "x", "/v1/x", "//", "/\xff", "/v2/"}
	mtypes  = []string{"application/json", "text/html", "*/*", "application/vnd.x+json", "a/b"}
	hostile = []string{"a/b; version=\"", "a/b; version=\";\"", "a/b; charset=\"; version=v1", "a/b; v=\"", "a/b; api=\"\"", "\"", "a/b; version=\"\\", "a/b; version=\"v1,5\"", "a/b; version=v1, c/d", "", ";", "a/b;", "a/b; version", "a/b; version=", "\xff", "a/b; version=\"v1", "a/b;;version=v1", "version=v1", "a/b; q=0.9, c/d; version=v1"}
)

func decorate(t *rapid.T, v string) string {
	if rapid.Bool().Draw(t, "lead") {
		v = "/" + v
	}
	if rapid.Bool().Draw(t, "trail") {
		v += "/"
	}
	return v
}

func gen(t *rapid.T) Case {
	var c Case
	base := rapid.SliceOfNDistinct(rapid.SampledFrom(names), 1, 7, rapid.ID[string]).Draw(t, "versions")
	if rapid.IntRange(0, 7).Draw(t, "longList") == 0 {
		// a list of a length beyond the usual: the names of the small pool scattered among generated ones
		var gen []string
		for i := 0; i < 40; i++ {
			gen = append(gen, fmt.Sprintf("r%d", i), fmt.Sprintf("api/r%d", i))
		}
		base = rapid.Permutation(append(gen[:rapid.IntRange(6, 60).Draw(t, "longN")], base...)).Draw(t, "longPerm")
	}
	for _, v := range base {
		c.Versions = append(c.Versions, decorate(t, v))
	}
	if rapid.IntRange(0, 5).Draw(t, "emptyVersion") == 0 {
		at := rapid.IntRange(0, len(c.Versions)).Draw(t, "emptyAt")
		c.HVersions = append(append(append([]string{}, c.Versions[:at]...), ""), c.Versions[at:]...)
	}
	c.Param = rapid.SampledFrom([]string{"ver", "ver", ""}).Draw(t, "param")
	c.Key = rapid.SampledFrom([]string{"", "version", "v", "api"}).Draw(t, "key")
	key := c.Key
	if key == "" {
		key = "version"
	}
	sibKey := ""
	if rapid.IntRange(0, 2).Draw(t, "sib") == 0 {
		sb := &Case{Param: rapid.SampledFrom([]string{"ver", "sv", ""}).Draw(t, "sibParam")}
		for _, v := range rapid.SliceOfNDistinct(rapid.SampledFrom(names), 1, 3, rapid.ID[string]).Draw(t, "sibVersions") {
			sb.Versions = append(sb.Versions, decorate(t, v))
		}
		var others []string
		for _, k := range []string{"version", "v", "api"} {
			if k != key {
				others = append(others, k)
			}
		}
		sb.Key = rapid.SampledFrom(others).Draw(t, "sibKey")
		sibKey = sb.Key
		c.Sib = sb
	}
	for i, n := 0, rapid.IntRange(1, 6).Draw(t, "npaths"); i < n; i++ {
		var p string
		switch rapid.IntRange(0, 9).Draw(t, "pmode") {
		case 0, 1, 2, 3:
			p = "/" + rapid.SampledFrom(base).Draw(t, "pv") + rapid.SampledFrom(tails).Draw(t, "tail")
		case 4:
			p = "/" + rapid.SampledFrom(names).Draw(t, "pvAny") + rapid.SampledFrom(tails).Draw(t, "tail")
		case 5:
			v := rapid.SampledFrom(base).Draw(t, "pvNear")
			p = rapid.SampledFrom([]string{v + "/x", "/" + v, "/" + v + "x/y", "//" + v + "/x", "/x/" + v + "/y", "/" + strings.ToUpper(v) + "/x", "/" + v[:len(v)-1] + "/x"}).Draw(t, "near")
		case 6:
			p = rapid.SampledFrom([]string{"", "*", "/", "//"}).Draw(t, "special")
		default:
			p = string(rapid.SliceOfN(rapid.Byte(), 0, 10).Draw(t, "praw"))
		}
		c.Paths = append(c.Paths, p)
	}
	for i, n := 0, rapid.IntRange(1, 6).Draw(t, "naccepts"); i < n; i++ {
		var a string
		switch rapid.IntRange(0, 9).Draw(t, "amode") {
		case 0, 1, 2, 3, 4:
			k := rapid.SampledFrom([]string{key, key, strings.ToUpper(key), "other", "q"}).Draw(t, "akey")
			v := rapid.SampledFrom(append(append(append([]string{}, c.Versions...), c.Versions...), append(base, "v9", "")...)).Draw(t, "aval")
			if rapid.Bool().Draw(t, "quoted") {
				v = `"` + v + `"`
			}
			a = rapid.SampledFrom(mtypes).Draw(t, "mtype") + rapid.SampledFrom([]string{"; ", ";", " ; "}).Draw(t, "sep") + k + "=" + v
			if rapid.Bool().Draw(t, "more") {
				a += "; charset=utf-8"
			}
			if sibKey != "" && rapid.Bool().Draw(t, "sibToo") {
				// the sibling's key in the same header, with a value of its own
				a += "; " + sibKey + "=" + rapid.SampledFrom(append(append([]string{}, c.Sib.Versions...), "v9", "v1", "1.0")).Draw(t, "sibVal")
			}
			switch rapid.IntRange(0, 9).Draw(t, "comma") {
			case 0:
				a += ", text/html" // a list of media ranges is not one media type
			case 1:
				a += `; note="a,b"` // a comma inside a quoted value is
			case 2:
				// flawless up to here, then something that spoils the whole header (or, for the empty tail, does not)
				a += rapid.SampledFrom([]string{"; charset", ";;", `; q="0.8`, "; " + k + "=v9", "; " + k + "*=utf-8''v2", ";", `; x="`}).Draw(t, "tail")
			}
		case 5:
			a = rapid.SampledFrom(mtypes).Draw(t, "plain")
		case 6, 7:
			a = rapid.SampledFrom(hostile).Draw(t, "hostile")
		default:
			a = rapid.String().Draw(t, "aany")
		}
		c.Accepts = append(c.Accepts, a)
	}
	return c
}

func norm(v string) string {
	v = strings.TrimPrefix(v, "/")
	if strings.HasSuffix(v, "/") {
		v = v[:len(v)-1]
	}
	return v
}

func snapshot(ctx *types.Context) map[string]string {
	m := map[string]string{}
	ctx.Range(func(k, v string) { m[k] = v })
	return m
}

func check(c Case, st *rig.Stats) error {
	nontriv := false
	var classes []string
	if c.Sib != nil {
		classes = append(classes, "sibling-matchers-asked-first")
		sb := *c.Sib
		sb.Paths, sb.Accepts, sb.Sib = c.Paths, c.Accepts, nil
		subject := c
		subject.Sib = nil
		// interleaved: for every input the sibling first, then the subject - both on long-lived matcher objects
		sm, cm := newMatchers(sb), newMatchers(subject)
		for i := range c.Paths {
			if err := sm.path(c.Paths[i], &nontriv, &classes); err != nil {
				return err
			}
			if err := cm.path(c.Paths[i], &nontriv, &classes); err != nil {
				return err
			}
		}
		for i := range c.Accepts {
			if err := sm.accept(c.Accepts[i], &nontriv, &classes); err != nil {
				return err
			}
			if err := cm.accept(c.Accepts[i], &nontriv, &classes); err != nil {
				return err
			}
		}
		st.Eval(c, nontriv, classes...)
		return nil
	}
	m := newMatchers(c)
	for _, path := range c.Paths {
		if err := m.path(path, &nontriv, &classes); err != nil {
			return err
		}
	}
	for _, acc := range c.Accepts {
		if err := m.accept(acc, &nontriv, &classes); err != nil {
			return err
		}
	}
	st.Eval(c, nontriv, classes...)
	return nil
}

type matchers struct {
	c   Case
	pv  mux.Matcher
	hv  mux.Matcher
	key string
	// hvers is the header matcher's version list
	hvers []string
}

func newMatchers(c Case) *matchers {
	m := &matchers{c: c, key: c.Key}
	m.pv = mux.NewPathVersion(c.Param, append([]string{}, c.Versions...)...)
	m.hvers = c.Versions
	if len(c.HVersions) > 0 {
		m.hvers = c.HVersions
	}
	m.hv = mux.NewHeaderVersion(c.Param, c.Key, func(error) {}, append([]string{}, m.hvers...)...)
	if m.key == "" {
		m.key = "version"
	}
	return m
}

func (m *matchers) path(path string, nontrivp *bool, classesp *[]string) error {
	c, pv := m.c, m.pv
	nontriv, classes := *nontrivp, *classesp
	defer func() { *nontrivp, *classesp = nontriv, classes }()
	{
		// reference
		want, wantPath, wantParam := false, path, ""
		for _, v := range c.Versions {
			pre := "/" + norm(v)
			if strings.HasPrefix(path, pre+"/") {
				want, wantPath, wantParam = true, path[len(pre):], pre
				break
			}
		}
		for _, v := range c.Versions {
			if n := "/" + norm(v); strings.HasPrefix(path, n) || strings.HasPrefix(n, path) && len(path) > 1 {
				nontriv = true
			}
		}
		r := &http.Request{Method: "GET", URL: &url.URL{Path: path}, Host: "h", Header: http.Header{"Accept": {"a/b; version=v1"}}}
		if len(path) > 2 && (len(path)+len(c.Versions))%3 == 0 {
			// the same path written with a percent-escape in its first segment: what the matcher is specified on is the
			// (decoded) request path, whichever spelling the target came in
			r.URL.RawPath = fmt.Sprintf("%s%%%02X%s", path[:1], path[1], path[2:])
			classes = append(classes, "path-with-escaped-spelling")
		}
		ctx := types.NewContext()
		ctx.Set("pre", "1")
		var got bool
		if v, p := rig.Try(func() { got = pv.Match(r, ctx) }); p {
			return rig.Violf("panic", "PathVersion%v.Match(%q) panicked: %v", c.Versions, path, v)
		}
		params := snapshot(ctx)
		ctx.Destroy()
		wantParams := map[string]string{"pre": "1"}
		if want && c.Param != "" {
			wantParams[c.Param] = wantParam
		}
		switch {
		case got != want:
			return rig.Violf("path-accept", "PathVersion%v.Match(%q) = %v, want %v", c.Versions, path, got, want)
		case r.URL.Path != wantPath:
			return rig.Violf("path-rewrite", "PathVersion%v.Match(%q) = %v left URL.Path=%q, want %q", c.Versions, path, got, r.URL.Path, wantPath)
		case !rig.EqualParams(params, wantParams):
			return rig.Violf("path-params", "PathVersion%v(param %q).Match(%q) = %v left params %v, want %v", c.Versions, c.Param, path, got, params, wantParams)
		case r.Host != "h" || r.Method != "GET" || r.Header.Get("Accept") != "a/b; version=v1":
			return rig.Violf("path-touched-request", "PathVersion.Match(%q) changed other request fields", path)
		}
		if got {
			classes = append(classes, "path-accepted")
		} else {
			classes = append(classes, "path-rejected")
		}
	}
	return nil
}

func (m *matchers) accept(acc string, nontrivp *bool, classesp *[]string) error {
	c, hv, key := m.c, m.hv, m.key
	nontriv, classes := *nontrivp, *classesp
	defer func() { *nontrivp, *classesp = nontriv, classes }()
	{
		want, wantVer := false, ""
		if acc != "" {
			if _, ps, err := mime.ParseMediaType(acc); err == nil {
				nontriv = true
				classes = append(classes, "accept-parses")
				for _, v := range m.hvers {
					if ps[key] == v {
						want, wantVer = true, v
						break
					}
				}
			}
		}
		r := &http.Request{Method: "GET", URL: &url.URL{Path: "/v1/x"}, Host: "h", Header: http.Header{}}
		if acc != "" {
			r.Header["Accept"] = []string{acc}
		}
		ctx := types.NewContext()
		ctx.Set("pre", "1")
		var got bool
		if v, p := rig.Try(func() { got = hv.Match(r, ctx) }); p {
			return rig.Violf("panic", "HeaderVersion%v.Match(Accept %q) panicked: %v", m.hvers, acc, v)
		}
		params := snapshot(ctx)
		ctx.Destroy()
		wantParams := map[string]string{"pre": "1"}
		if want && c.Param != "" {
			wantParams[c.Param] = wantVer
		}
		switch {
		case got != want:
			return rig.Violf("header-accept", "HeaderVersion%v(key %q).Match(Accept %q) = %v, want %v", m.hvers, key, acc, got, want)
		case !rig.EqualParams(params, wantParams):
			return rig.Violf("header-params", "HeaderVersion%v(param %q).Match(Accept %q) = %v left params %v, want %v", m.hvers, c.Param, acc, got, params, wantParams)
		case r.URL.Path != "/v1/x":
			return rig.Violf("header-touched-path", "HeaderVersion.Match changed URL.Path to %q", r.URL.Path)
		}
		if got {
			classes = append(classes, "header-accepted")
		} else {
			classes = append(classes, "header-rejected")
		}
	}
	return nil
}

var stats = rig.NewStats("C15",
	"rapid draws a version list (1-4 of v1 v11 v2 1.0 a/b a V1 v1.1, each with or without leading and trailing '/'), a parameter name (or none), an Accept key, 1-6 paths ('/'+listed version+tail, other versions, near misses: no leading slash, no trailing slash, version recurring later, other letter case, proper prefix of a version; '' '*' '/'; arbitrary bytes) and 1-6 Accept headers (media type grammar with the key present / upper-case / absent, quoted values, tails that spoil an otherwise flawless header - a parameter without value, a duplicate of the key, an unterminated quote, a name* form -, lone quotes, junk, arbitrary strings). In a third of the cases a sibling pair of matchers (other version list, Accept key and parameter name) is asked about every path / header just before the subject and judged the same way; headers then carry both keys with different values. Oracle: path matcher accepts iff the path begins with '/'+version+'/' for the first listed such version, then URL.Path loses exactly '/'+version and the parameter holds '/'+version; header matcher accepts iff mime.ParseMediaType succeeds and params[key] is a listed version; on rejection path and parameters (pre-populated) are byte-identical. Non-trivial: a path that starts with, or is a proper prefix of, '/'+a listed version, or an Accept header that parses; distinct by hash of the case. Later additions to the generated domain: One list in eight has 6-60 generated names (plain and multi-segment) around the usual ones.",
	"mime.ParseMediaType (standard library) is the trusted reference for Accept parsing",
	"the version '/' (empty name) and empty version lists are outside the stated domain")

func TestProp(t *testing.T) { rig.RunProp(t, stats, gen, check) }

func FuzzProp(f *testing.F) { rig.FuzzProp(f, stats, gen, check) }
