#!/bin/sh
# Offline setup: pre-compile the harness packages so that the first check is fast. Nothing is fetched.
set -e
cd "$(dirname "$0")/harness"
export GOFLAGS=-mod=mod GOPROXY=off GOSUMDB=off GOTOOLCHAIN=local
go build ./... 
go vet ./pat ./rig >/dev/null 2>&1 || true
for d in c*/; do go test -c -vet=off -o /dev/null ./$d >/dev/null 2>&1 || true; done
# the two schedule checks are built with the race detector: warm that part of the build cache too
for d in c06 c07; do go test -race -c -vet=off -o /dev/null ./$d >/dev/null 2>&1 || true; done
echo setup done
