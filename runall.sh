#!/bin/sh
# ./runall.sh [quick|thorough] [parallelism]  - runs every configured check, prints one line each
tier=${1:-quick}; par=${2:-4}
cd "$(dirname "$0")"
./check --list | tr ' ' '\n' | xargs -P "$par" -I{} sh -c './check {} '"$tier"' > /tmp/runall-{}.log 2>&1; echo "{} rc=$? $(tail -1 /tmp/runall-{}.log | cut -c1-150)"' | sort
