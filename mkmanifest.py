#!/usr/bin/env python3
"""Regenerates MANIFEST.json from checks.json and manifest_text.json."""
import json, os
ROOT = os.path.dirname(os.path.abspath(__file__))
cfg = json.load(open(os.path.join(ROOT, "checks.json")))
txt = json.load(open(os.path.join(ROOT, "manifest_text.json")))
props = [json.loads(l)["id"] for l in open(os.path.join(ROOT, "properties.jsonl"))]
checks, na = [], []
for pid in props:
    if pid in cfg and pid in txt["checks"]:
        t = txt["checks"][pid]
        checks.append({
            "property_id": pid,
            "quick_cmd": "./check %s quick" % pid,
            "thorough_cmd": "./check %s thorough" % pid,
            "evidence_file": "/verif/evidence/%s.json" % pid,
            "replay_cmd_template": "./check --replay {path}",
            "engine": "rapid-harness",
            "level_claimed": {"category": "exploration", "text": t["level_text"], "design_ref": t.get("design_ref", "DESIGN.md §4 " + pid)},
            "level_note": t["level_note"],
            "technique": t["technique"],
        })
    else:
        na.append({"property_id": pid, "reason": txt.get("not_applicable", {}).get(pid, "check not built yet in this session; planned per DESIGN.md §4")})
m = {
    "version": 1,
    "setup_cmd": "./setup.sh",
    "hooks": {
        "guard": "verif",
        "enable": "none needed: every check is black-box through the public API; the harness module replaces github.com/issue9/mux/v9 with /repo and is rebuilt on every run",
        "baseline_off_cmd": "cd /repo && go test -vet=off -count=1 ./...",
        "source_commits": [],
        "add_only": True,
    },
    "engines": [{
        "name": "rapid-harness", "path": "/verif/harness",
        "serves_properties": [c["property_id"] for c in checks],
        "kind_free_text": "Go module with pgregory.net/rapid v1.3.0 properties (stateless and history generators, shrinking), native go-fuzz entry points over the same generators, -race child processes for schedule properties; driver /verif/check shards by seed and writes evidence",
    }],
    "checks": checks,
    "notes": txt.get("notes", ""),
    "not_applicable": na,
}
json.dump(m, open(os.path.join(ROOT, "MANIFEST.json"), "w"), indent=1, ensure_ascii=False)
print("checks:", len(checks), "not_applicable:", len(na))
